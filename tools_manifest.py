#!/usr/bin/env python3
"""Regenerates MANIFEST.json from the table below (kept in one place so the
manifest stays valid while checks are added)."""
import json, sys
props=[json.loads(l) for l in open('/verif/properties.jsonl')]
CHECKS = {
 # id: (level, design_ref, text, note, technique)
 "C01": ("exploration", "DESIGN.md §4 C01",
   "seeded search over world-A histories (which reports reach the aggregator, order, duplicates, replayed copies; per-client OS entropy; three randomness sources incl. a simulated PPOPRF exchange); for each group with >= t distinct delivered points a drawn selection (t distinct + repeats + surplus, permuted) is decoded from wire bytes and must recover; every delivered report must decrypt to exactly its client's measurement and aux. Sampling, not proof.",
   "trusts strobe-rs, curve25519-dalek, serde/bincode, the vendored getrandom seam and the harness's independent layout parser; assumes no two honest clients draw the same 129-bit point",
   "deterministic simulation with fault injection (drop/dup/reorder/delay/replay), seeded schedule search, ideal-functionality oracle"),
 "C02": ("exploration", "DESIGN.md §4 C02",
   "seeded search over world-A histories with the aggregator and the wire acting as attacker at every aggregation moment on whatever sub-threshold material has arrived (as is; duplicate-padded; threshold field forged to 0..d+1, t-1, t+1, 2^32-1 in first/all shares; foreign shares of other measurements / the same measurement under another epoch or threshold mixed in): Ok is acceptable only as the secret of a group complete inside the collection. Every sent report is scanned at every offset for the client's secrets; the dealt polynomial is interpolated with big integers (exact degree, non-zero distinct coefficients, disjoint between groups). Structural, sampling evidence - not a cryptographic proof.",
   "trusts strobe-rs and the big-integer model; r0/r1 needles are recomputed through the public strobe_digest (scan for those goes vacuous, never alarms, if the derivation is refactored)",
   "deterministic simulation with fault injection (loss creates sub-threshold buckets, duplication creates padding, cross-delivery creates mixes, field rewrite forges thresholds); attacker battery + big-integer interpolation oracle"),
 "C03": ("exploration", "DESIGN.md §4 C03",
   "seeded search over world-A histories in which clients of one group attach different associated data; a wire observer checks per report (aux never in clear, no carried 16/32-byte window decrypts the payload) and per pair (two-time-pad relation ct1^ct2 == pt1^pt2 from the first differing byte). The relation DOES hold on the unchanged tree within the first divergent cipher block: recorded as known finding; anything else (relation beyond that block, aux in clear, carried key) is reported.",
   "structural check only; relation over fewer than 8 bytes is treated as chance; cipher block = 166 bytes (Strobe-128 rate)",
   "deterministic simulation; multi-client history observed on the wire; pairwise ciphertext-relation oracle"),
 "C04": ("exploration", "DESIGN.md §4 C04",
   "seeded search over histories of independent STARLite clients (own seeded entropy, no communication) over a family of confusable (measurement, epoch, threshold) triples; history tables triple -> (randomness, tag, key) must be a function and injective; share points pairwise distinct; complete groups recover (C01 oracle armed); key after recovery equals the clients' key. The confusable family is input generation and is labelled as such.",
   "ignores chance collisions of 128/256-bit honest values",
   "deterministic simulation (independent parties with controlled entropy); function/injection tables over the recorded history"),
 "C05": ("fault_enumeration", "DESIGN.md §4 C05",
   "several adss sharings (also through the star wrapper) meet at one combiner under dup/reorder; per attempt one field fault is applied from the grid position x {threshold, S.len, S.x, S.y, C.len, C, D.len, D, J} x byte offset x {bit flip, 00, ff, +1, swap with the same field of another share}; thorough sweeps all 9 fields x 5 kinds on the first share of every collection. Oracle: Err or exactly the message of the first share's sharing; a first share that is no genuine share of that sharing (threshold/C/D/J and polynomial membership judged with big integers) must give Err when message+coins carry >= 128 bits.",
   "a 64-byte MAC is not forged by one field fault; 'always rejected' is not demanded when |M|+|R| < 16 bytes because a wrong key then decrypts to the right (M,R) by chance with probability 2^-8(|M|+|R|)",
   "deterministic simulation with fault injection (field-targeted corruption, cross-delivery between sharings, dup, reorder); provenance oracle + big-integer polynomial membership"),
 "C06": ("exploration", "DESIGN.md §4 C06",
   "seeded search over dealings whose supplied random source is a recorded scripted stream (adversarial prefixes: zero limbs, p, p+-1, all-ones, repeats; rejected >= p draws) and whose shares (Evaluator::next and ::gen) cross the wire under drop/dup/reorder/truncate to a combiner; polynomials are inferred by big-integer interpolation, coefficients must be exactly the multiset of elements the stream yielded, every share is re-evaluated by big-integer Horner, x != 0, recovery from drawn selections equals big-integer Lagrange and the secret; insufficient / unequal-length collections and out-of-range secrets are refused.",
   "trusts Fp::random's word-to-element mapping and to_repr (used to read the stream); most of the deciding power here is the independent big-integer model - stated plainly in DESIGN.md",
   "deterministic simulation with scripted entropy streams and transport faults; independent big-integer Shamir model as oracle"),
 "C08": ("fault_enumeration", "DESIGN.md §4 C08",
   "every honest report / adss share / sharks share that crosses the simulated wire must decode to the sender's value and follow the documented layout as read by an independent parser; around each honest encoding the transport's fault set is enumerated (every prefix, every boundary value in each length/threshold field, 4 byte faults per offset, out-of-range field elements per slot, extensions, splices, garbage) and the real decoders must agree with the parser on accept/reject and on the canonical re-encoding. Enumeration is complete per honest message for the listed fault kinds; the honest messages themselves are sampled.",
   "trusts the ~150-line independent parser (models/layout.rs, num-bigint); decoder panics are counted and left to C09",
   "deterministic simulation with fault injection; differential oracle against an independent layout parser; per-message fault enumeration"),
 "C09": ("fault_enumeration", "DESIGN.md §4 C09",
   "every receiver entry point named by the property runs as a simulated node under catch_unwind while the transport corrupts EVERY delivery (10 byte-level kinds), enumerates boundary values of every length/threshold field and short prefixes, and substitutes structurally valid degenerate values (shares without y, x=0, thresholds 0 and 2^32-1, undecodable group elements in each position of a public key / evaluation / request, missing proof, non-base64 and empty lines); corrupted-but-accepted values flow on into recovery and verification. Oracle: no unwind. Built with overflow-checks so arithmetic overflow counts.",
   "aborts cannot be caught in-process: the wrapper treats an abnormal exit as a violation; Client::unblind and Point::from(&[u8]) are outside the property's list",
   "deterministic simulation with fault injection; crash oracle (catch_unwind per receiver callback); fault enumeration per delivery"),
 "C10": ("exploration", "DESIGN.md §4 C10",
   "seeded search over operation histories of one GGM key and its clones (eval, puncture in adversarial orders up to all 256 inputs, repeated puncture, wrong-length operations, clone-and-diverge) against an ideal table + punctured set; after every operation the result is compared with the model and the affected subtree / a sample / the full domain is swept. Not an enumeration of the 2^256 subsets.",
   "trusts strobe-rs and bitvec; sampling only",
   "deterministic simulation of a stateful key under seeded operation histories; reference-model oracle after every step"),
 "C11": ("exploration", "DESIGN.md §4 C11",
   "a server registered for all 256 tags is driven through drawn puncture histories; at drawn points its key state is exported, crosses the simulated wire and is imported into a fresh instance that takes over (crash/replication). On every exported blob, read through a serde mirror: no retained prefix on the path to a punctured tag; prefixes prefix-free and covering exactly the live tags; tamper attack (punctured list emptied, re-imported) must not evaluate any punctured tag; an independent GGM descent from the exported seeds reproduces the server for live tags and has no start node for punctured ones.",
   "the mirror follows the serde layout of the key state (drift = harness error, exit 2); zeroisation of dropped seeds in memory is not observable",
   "deterministic simulation (export -> transport -> import at arbitrary history points, crash/restore); structural invariant on exported state + attack replay + independent re-derivation"),
 "C12": ("exploration", "DESIGN.md §4 C12",
   "seeded search over world-C histories (several servers with own keys, many clients, requests, blindings; dup/reorder/delay/replay): (key, tag, input) -> finalised output is a function across the whole history and injective; every unblinded point equals the server's evaluation of the independently recomputed H(input); Client::finalize equals the documented hash; blinded request points are pairwise distinct and differ from H(input).",
   "chance collisions of 256-bit values ignored; obliviousness is decided structurally (freshness), not cryptographically",
   "deterministic simulation with per-party seeded entropy and transport faults; function/injection tables over the recorded history"),
 "C13": ("fault_enumeration", "DESIGN.md §4 C13",
   "world C in verifiable mode: every honest response verifies after crossing as JSON/bincode; for every honest (pk, P, Q, tag, c, s) an enumerated tamper set replaces one component by the same-typed component of other exchanges (incl. misdelivered / replayed responses, other servers' keys, other tags), by a neighbour (scalar +-1, point + G, one bit, swapped tag entries) or by identity/zero; verify must be false unless the resulting (statement, proof) was honestly issued; the commitments r*G of all issued proofs are pairwise distinct (no nonce reuse).",
   "soundness over the enumerated tamper set, not a cryptographic proof; panics of verify are C09's",
   "deterministic simulation with a tampering transport (substitution, replay, misdelivery); statement-equality oracle; nonce-commitment table over the history"),
 "C14": ("exploration", "DESIGN.md §4 C14",
   "seeded search over full world-C histories: primary with epoch timer puncturing and replicating its exported key state over a lossy/duplicating/reordering transport (replicas may import an older state after a newer one), clients with skewed clocks whose requests arrive after the puncture, durable snapshots with lost writes, crash + restart from stale snapshot or with a new key, clone-and-diverge, manual export/import, punctures of boundary/unregistered/adjacent/already-punctured tags; after every operation the outcome is compared with a per-instance reference model and a sweep checks answered-iff-live, answers unchanged, public key unchanged, importer == exporter at export time.",
   "key-state blobs are never corrupted here; no liveness claim; the rotation loop is a harness stub modelled on ppoprf/examples/server.rs (not executed)",
   "deterministic discrete-event simulation with timers, clock skew, crash/restart with durable-only state, replication under message faults; per-instance reference model checked after every event"),
 "C15": ("fault_enumeration", "DESIGN.md §4 C15",
   "every public key and proof (bincode) and every point and evaluation (JSON) that crosses the simulated wire in world C is restored and must equal the original and be interchangeable with it in Client::verify; per value the transport's truncation to every prefix must be refused, padding to limit-1/limit loads and equals, limit+1 gives SerializedDataTooBig (16384 / 64 bytes), bit flips never yield an unstable value; tag sets of 0..256 tags.",
   "bincode ignores trailing bytes by design; JSON forms have no documented limit",
   "deterministic simulation; value-equality oracle after transport; enumerated truncation/padding faults per value"),
 "C16": ("exploration", "DESIGN.md §4 C16",
   "seeded search over adss sharings (t 0..128, |M|,|R| 0..100000 with block-boundary lengths, optional custom transcripts) dealt by independent dealer nodes - different entropy streams, and two dealers handed the SAME stream through the getrandom seam - whose shares cross the wire under drop/dup/reorder to one combiner where shares of a second transcript also arrive; history oracle: threshold/C/D/J identical across dealers, same entropy => identical share, different entropy => distinct points, t shares recover M, the recovered sharing re-shared mixes with original shares, t=0 never recovers, custom-transcript shares rejected, two transcripts never combine (when |M|+|R| >= 16).",
   "two honest dealers never draw the same point; transcript-mix check needs >= 128 authenticated bits",
   "deterministic simulation with controlled per-dealer entropy (identical vs different streams) and transport faults; determinism table + re-sharing oracle"),
 "C17": ("exploration", "DESIGN.md §4 C17",
   "world A with WASM clients (create_share) and a WASM aggregator (group_shares), run natively: every create_share output is parsed as JSON, its base64 fields decoded and compared with the core library's derivation for the same triple; base64 share lines (WASM and core clients mixed) cross the transport under drop/dup/reorder; group_shares must return the clients' key iff >= t distinct shares arrived, None when fewer or for a sub-threshold mix, and never the clients' key under another epoch; epochs empty / ASCII / multi-byte UTF-8.",
   "the wasm-bindgen glue is not exercised (native rlib); malformed lines are C09's",
   "deterministic simulation with transport faults; core library as reference on the same inputs"),
 "C18": ("exploration", "DESIGN.md §4 C18",
   "world A with star_test_utils::AggregationServer as aggregator: delivered reports (after drop/reorder/delay) go in arrival order to retrieve_outputs inside a real rayon pool of drawn size 1..16; canonical output must equal the ideal functionality over the delivered multiset and be identical under a second permutation and pool size.",
   "rayon's internal scheduling and HashMap order are not controlled (tasks share no state; output canonicalised); duplicated deliveries excluded; empty aux == absent aux",
   "deterministic simulation of delivery schedules + real thread pool of seeded size; ideal-functionality oracle on canonicalised output"),
}
NA = {
 "C07": "pure function of two operands: no party, message, state, fault, schedule or entropy for a simulator to own (DESIGN.md §4 C07); operand generation against big integers would be property-based testing, not this technique",
}
m={"version":1,
"setup_cmd":"cd /verif && ./check --build",
"hooks":{"guard":"none","enable":"no source hooks in /repo: the only seam is [patch.crates-io] getrandom = vendor/getrandom in the harness workspace /verif/starsim; /repo sources compile unchanged","baseline_off_cmd":"cd /repo && cargo test --workspace --no-fail-fast --offline","source_commits":[],"add_only":True},
"engines":[{"name":"starsim","path":"/verif/starsim","serves_properties":sorted(CHECKS),"kind_free_text":"deterministic discrete-event simulator with fault injection; one seeded PRNG decides every delivery, delay, fault, operation and size; per-node seeded OS entropy through a patched getrandom; recorded choice vector = replay file; choice-vector shrinking"}],
"checks":[],
"notes":"See DESIGN.md. exit 0 held / 1 violation / 2 harness error. ./check --selftest proves determinism across processes and worker counts.",
"not_applicable":[]}
for p in props:
    i=p["id"]
    if i in CHECKS:
        lvl,ref,text,note,tech=CHECKS[i]
        m["checks"].append({"property_id":i,"quick_cmd":f"./check {i} quick","thorough_cmd":f"./check {i} thorough","evidence_file":f"/verif/evidence/{i}.json","replay_cmd_template":"./check --replay {path}","engine":"starsim","level_claimed":{"category":lvl,"text":text,"design_ref":ref},"level_note":note,"technique":tech})
    else:
        m["not_applicable"].append({"property_id":i,"reason":NA.get(i,"check not built yet (work in progress; see DESIGN.md §4 for the planned simulation)")})
json.dump(m,open('/verif/MANIFEST.json','w'),indent=1)
print("checks:",len(m["checks"]),"n/a:",len(m["not_applicable"]))
