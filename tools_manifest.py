#!/usr/bin/env python3
"""Regenerates MANIFEST.json from the table below (kept in one place so the
manifest stays valid while checks are added)."""
import json, sys
props=[json.loads(l) for l in open('/verif/properties.jsonl')]
CHECKS = {
 # id: (level, design_ref, text, note, technique)
 "C01": ("exploration", "DESIGN.md §4 C01",
   "seeded search over world-A histories (which reports reach the aggregator, order, duplicates, replayed copies; per-client OS entropy; three randomness sources incl. a simulated PPOPRF exchange); for each group with >= t distinct delivered points a drawn selection (t distinct + repeats + surplus, permuted) is decoded from wire bytes and must recover; every delivered report must decrypt to exactly its client's measurement and aux. Sampling, not proof.",
   "trusts strobe-rs, curve25519-dalek, serde/bincode, the vendored getrandom seam and the harness's independent layout parser; assumes no two honest clients draw the same 129-bit point",
   "deterministic simulation with fault injection (drop/dup/reorder/delay/replay), seeded schedule search, ideal-functionality oracle"),
 "C02": ("exploration", "DESIGN.md §4 C02",
   "seeded search over world-A histories with the aggregator and the wire acting as attacker at every aggregation moment on whatever sub-threshold material has arrived (as is; duplicate-padded; threshold field forged to 0..d+1, t-1, t+1, 2^32-1 in first/all shares; foreign shares of other measurements / the same measurement under another epoch or threshold mixed in): Ok is acceptable only as the secret of a group complete inside the collection. Every sent report is scanned at every offset for the client's secrets; the dealt polynomial is interpolated with big integers (exact degree, non-zero distinct coefficients, disjoint between groups). Structural, sampling evidence - not a cryptographic proof.",
   "trusts strobe-rs and the big-integer model; r0/r1 needles are recomputed through the public strobe_digest (scan for those goes vacuous, never alarms, if the derivation is refactored)",
   "deterministic simulation with fault injection (loss creates sub-threshold buckets, duplication creates padding, cross-delivery creates mixes, field rewrite forges thresholds); attacker battery + big-integer interpolation oracle"),
 "C03": ("exploration", "DESIGN.md §4 C03",
   "seeded search over world-A histories in which clients of one group attach different associated data; a wire observer checks per report (aux never in clear, no carried 16/32-byte window decrypts the payload) and per pair (two-time-pad relation ct1^ct2 == pt1^pt2 from the first differing byte). The relation DOES hold on the unchanged tree within the first divergent cipher block: recorded as known finding; anything else (relation beyond that block, aux in clear, carried key) is reported.",
   "structural check only; relation over fewer than 8 bytes is treated as chance; cipher block = 166 bytes (Strobe-128 rate)",
   "deterministic simulation; multi-client history observed on the wire; pairwise ciphertext-relation oracle"),
 "C04": ("exploration", "DESIGN.md §4 C04",
   "seeded search over histories of independent STARLite clients (own seeded entropy, no communication) over a family of confusable (measurement, epoch, threshold) triples; history tables triple -> (randomness, tag, key) must be a function and injective; share points pairwise distinct; complete groups recover (C01 oracle armed); key after recovery equals the clients' key. The confusable family is input generation and is labelled as such.",
   "ignores chance collisions of 128/256-bit honest values",
   "deterministic simulation (independent parties with controlled entropy); function/injection tables over the recorded history"),
 "C05": ("fault_enumeration", "DESIGN.md §4 C05",
   "several adss sharings (also through the star wrapper) meet at one combiner under dup/reorder; per attempt one field fault is applied from the grid position x {threshold, S.len, S.x, S.y, C.len, C, D.len, D, J} x byte offset x {bit flip, 00, ff, +1, swap with the same field of another share}; thorough sweeps all 9 fields x 5 kinds on the first share of every collection. Oracle: Err or exactly the message of the first share's sharing; a first share that is no genuine share of that sharing (threshold/C/D/J and polynomial membership judged with big integers) must give Err when message+coins carry >= 128 bits.",
   "a 64-byte MAC is not forged by one field fault; 'always rejected' is not demanded when |M|+|R| < 16 bytes because a wrong key then decrypts to the right (M,R) by chance with probability 2^-8(|M|+|R|)",
   "deterministic simulation with fault injection (field-targeted corruption, cross-delivery between sharings, dup, reorder); provenance oracle + big-integer polynomial membership"),
 "C06": ("exploration", "DESIGN.md §4 C06",
   "seeded search over dealings whose supplied random source is a recorded scripted stream (adversarial prefixes: zero limbs, p, p+-1, all-ones, repeats; rejected >= p draws) and whose shares (Evaluator::next and ::gen) cross the wire under drop/dup/reorder/truncate to a combiner; polynomials are inferred by big-integer interpolation, coefficients must be exactly the multiset of elements the stream yielded, every share is re-evaluated by big-integer Horner, x != 0, recovery from drawn selections equals big-integer Lagrange and the secret; insufficient / unequal-length collections and out-of-range secrets are refused.",
   "trusts Fp::random's word-to-element mapping and to_repr (used to read the stream); most of the deciding power here is the independent big-integer model - stated plainly in DESIGN.md",
   "deterministic simulation with scripted entropy streams and transport faults; independent big-integer Shamir model as oracle"),
 "C08": ("fault_enumeration", "DESIGN.md §4 C08",
   "every honest report / adss share / sharks share that crosses the simulated wire must decode to the sender's value and follow the documented layout as read by an independent parser; around each honest encoding the transport's fault set is enumerated (every prefix, every boundary value in each length/threshold field, 4 byte faults per offset, out-of-range field elements per slot, extensions, splices, garbage) and the real decoders must agree with the parser on accept/reject and on the canonical re-encoding. Enumeration is complete per honest message for the listed fault kinds; the honest messages themselves are sampled.",
   "trusts the ~150-line independent parser (models/layout.rs, num-bigint); decoder panics are counted and left to C09",
   "deterministic simulation with fault injection; differential oracle against an independent layout parser; per-message fault enumeration"),
 "C09": ("fault_enumeration", "DESIGN.md §4 C09",
   "every receiver entry point named by the property runs as a simulated node under catch_unwind while the transport corrupts EVERY delivery (10 byte-level kinds), enumerates boundary values of every length/threshold field and short prefixes, and substitutes structurally valid degenerate values (shares without y, x=0, thresholds 0 and 2^32-1, undecodable group elements in each position of a public key / evaluation / request, missing proof, non-base64 and empty lines); corrupted-but-accepted values flow on into recovery and verification. Oracle: no unwind. Built with overflow-checks so arithmetic overflow counts.",
   "aborts cannot be caught in-process: the wrapper treats an abnormal exit as a violation; Client::unblind and Point::from(&[u8]) are outside the property's list",
   "deterministic simulation with fault injection; crash oracle (catch_unwind per receiver callback); fault enumeration per delivery"),
 "C16": ("exploration", "DESIGN.md §4 C16",
   "seeded search over adss sharings (t 0..128, |M|,|R| 0..100000 with block-boundary lengths, optional custom transcripts) dealt by independent dealer nodes - different entropy streams, and two dealers handed the SAME stream through the getrandom seam - whose shares cross the wire under drop/dup/reorder to one combiner where shares of a second transcript also arrive; history oracle: threshold/C/D/J identical across dealers, same entropy => identical share, different entropy => distinct points, t shares recover M, the recovered sharing re-shared mixes with original shares, t=0 never recovers, custom-transcript shares rejected, two transcripts never combine (when |M|+|R| >= 16).",
   "two honest dealers never draw the same point; transcript-mix check needs >= 128 authenticated bits",
   "deterministic simulation with controlled per-dealer entropy (identical vs different streams) and transport faults; determinism table + re-sharing oracle"),
}
NA = {
 "C07": "pure function of two operands: no party, message, state, fault, schedule or entropy for a simulator to own (DESIGN.md §4 C07); operand generation against big integers would be property-based testing, not this technique",
}
m={"version":1,
"setup_cmd":"cd /verif/starsim && CARGO_NET_OFFLINE=true cargo build --release --offline",
"hooks":{"guard":"none","enable":"no source hooks in /repo: the only seam is [patch.crates-io] getrandom = vendor/getrandom in the harness workspace /verif/starsim; /repo sources compile unchanged","baseline_off_cmd":"cd /repo && cargo test --workspace --no-fail-fast --offline","source_commits":[],"add_only":True},
"engines":[{"name":"starsim","path":"/verif/starsim","serves_properties":sorted(CHECKS),"kind_free_text":"deterministic discrete-event simulator with fault injection; one seeded PRNG decides every delivery, delay, fault, operation and size; per-node seeded OS entropy through a patched getrandom; recorded choice vector = replay file; choice-vector shrinking"}],
"checks":[],
"notes":"See DESIGN.md. exit 0 held / 1 violation / 2 harness error. ./check --selftest proves determinism across processes and worker counts.",
"not_applicable":[]}
for p in props:
    i=p["id"]
    if i in CHECKS:
        lvl,ref,text,note,tech=CHECKS[i]
        m["checks"].append({"property_id":i,"quick_cmd":f"./check {i} quick","thorough_cmd":f"./check {i} thorough","evidence_file":f"/verif/evidence/{i}.json","replay_cmd_template":"./check --replay {path}","engine":"starsim","level_claimed":{"category":lvl,"text":text,"design_ref":ref},"level_note":note,"technique":tech})
    else:
        m["not_applicable"].append({"property_id":i,"reason":NA.get(i,"check not built yet (work in progress; see DESIGN.md §4 for the planned simulation)")})
json.dump(m,open('/verif/MANIFEST.json','w'),indent=1)
print("checks:",len(m["checks"]),"n/a:",len(m["not_applicable"]))
