//! Per-node simulated OS entropy, installed into the vendored getrandom seam
//! only for the duration of that node's callback.
use rand_chacha::rand_core::{RngCore, SeedableRng};
use rand_chacha::ChaCha8Rng;
use std::cell::RefCell;
use std::collections::BTreeMap;
use std::rc::Rc;

use crate::choices::mix;

pub struct OsStreams {
    seed: u64,
    streams: BTreeMap<u64, Rc<RefCell<ChaCha8Rng>>>,
}

struct Guard;
impl Drop for Guard {
    fn drop(&mut self) {
        let _ = getrandom::sim::uninstall();
    }
}

impl OsStreams {
    pub fn new(seed: u64) -> Self {
        OsStreams { seed, streams: BTreeMap::new() }
    }
    pub fn seed(&self) -> u64 {
        self.seed
    }
    fn stream(&mut self, key: u64) -> Rc<RefCell<ChaCha8Rng>> {
        let seed = self.seed;
        self.streams
            .entry(key)
            .or_insert_with(|| {
                let mut s = [0u8; 32];
                let a = mix(seed, key);
                let b = mix(a, 0x6f73_726e_67);
                s[..8].copy_from_slice(&a.to_le_bytes());
                s[8..16].copy_from_slice(&b.to_le_bytes());
                s[16..24].copy_from_slice(&key.to_le_bytes());
                s[24..].copy_from_slice(&seed.to_le_bytes());
                Rc::new(RefCell::new(ChaCha8Rng::from_seed(s)))
            })
            .clone()
    }
    /// Run `f` with node `node`'s entropy stream answering every OsRng draw on
    /// this thread. Streams persist across callbacks of the same node.
    pub fn with_node<R>(&mut self, node: u64, f: impl FnOnce() -> R) -> R {
        let st = self.stream(node);
        let prev = getrandom::sim::install(Box::new(move |buf: &mut [u8]| {
            st.borrow_mut().fill_bytes(buf);
        }));
        debug_assert!(prev.is_none(), "nested with_node");
        let _g = Guard;
        f()
    }
    /// Like `with_node`, but the node's entropy for this callback BEGINS with `prefix` (a rare but
    /// legal outcome of a healthy source: a burst of zero or all-one bytes) and then continues with
    /// the node's stream.
    pub fn with_node_prefix<R>(&mut self, node: u64, prefix: Vec<u8>, f: impl FnOnce() -> R) -> R {
        let st = self.stream(node);
        let mut pos = 0usize;
        let prev = getrandom::sim::install(Box::new(move |buf: &mut [u8]| {
            for b in buf.iter_mut() {
                if pos < prefix.len() {
                    *b = prefix[pos];
                    pos += 1;
                } else {
                    let mut one = [0u8; 1];
                    st.borrow_mut().fill_bytes(&mut one);
                    *b = one[0];
                }
            }
        }));
        debug_assert!(prev.is_none(), "nested with_node");
        let _g = Guard;
        f()
    }
    /// Two nodes given the *same* stream id see identical entropy (used by C16).
    pub fn with_stream<R>(&mut self, stream_id: u64, f: impl FnOnce() -> R) -> R {
        self.with_node(stream_id, f)
    }
    /// Restart a stream from its beginning (a dealer "given the same entropy").
    pub fn reset_stream(&mut self, key: u64) {
        self.streams.remove(&key);
    }
}

/// A scripted, recording RngCore for APIs that take a *supplied* RNG
/// (Sharks::dealer_rng, Evaluator::gen): a finite script of u64 words
/// followed by seeded uniform words; every word handed out is recorded.
pub struct ScriptRng {
    script: Vec<u64>,
    pos: usize,
    tail: crate::choices::Xoshiro,
    pub words: Vec<u64>,
}
impl ScriptRng {
    pub fn new(script: Vec<u64>, tail_seed: u64) -> Self {
        ScriptRng { script, pos: 0, tail: crate::choices::Xoshiro::new(tail_seed), words: Vec::new() }
    }
}
impl RngCore for ScriptRng {
    fn next_u32(&mut self) -> u32 {
        self.next_u64() as u32
    }
    fn next_u64(&mut self) -> u64 {
        let w = if self.pos < self.script.len() {
            let w = self.script[self.pos];
            self.pos += 1;
            w
        } else {
            self.tail.next()
        };
        self.words.push(w);
        w
    }
    fn fill_bytes(&mut self, dest: &mut [u8]) {
        for c in dest.chunks_mut(8) {
            let v = self.next_u64().to_le_bytes();
            c.copy_from_slice(&v[..c.len()]);
        }
    }
    fn try_fill_bytes(&mut self, dest: &mut [u8]) -> Result<(), rand_core::Error> {
        self.fill_bytes(dest);
        Ok(())
    }
}
