//! World C — the randomness service: PPOPRF servers (a primary that rotates
//! epochs on a timer and replicates its key state, replicas, durable snapshot
//! slots), clients with skewed clocks, a transport that loses, duplicates,
//! delays and reorders. Library calls are real; network, clock, storage and
//! entropy belong to the simulator. A per-instance reference model
//! (registered, punctured, answer table, public key) is maintained alongside.
use crate::choices::mix;
use crate::ev;
use crate::kernel::{Ctx, Fate, Net, NetCfg, NodeId, Packet, Sim, Violation};
use ppoprf::ppoprf as pp;
use std::collections::{BTreeMap, BTreeSet};

pub const SERVER0: NodeId = 2;
pub const CLIENT0: NodeId = 100;
pub const CLASS_REQ: u8 = 2;
pub const CLASS_RESP: u8 = 3;
pub const CLASS_STATE: u8 = 4;

#[derive(Clone, Default, Debug)]
pub struct Model {
    /// identity of the key (changes only when a server is created from scratch)
    pub key_id: u64,
    pub registered: BTreeSet<u8>,
    pub punctured: BTreeSet<u8>,
    /// (tag, blinded/unblinded point bytes) -> output point bytes
    pub table: BTreeMap<(u8, [u8; 32]), [u8; 32]>,
    pub pk_bytes: Vec<u8>,
}

pub struct ServerNode {
    pub node: NodeId,
    pub server: pp::Server,
    pub model: Model,
    /// durable snapshot: (bincode of the key state, model at export time)
    pub snapshot: Option<(Vec<u8>, Model)>,
    /// next epoch index for the primary's rotation
    pub epoch_idx: usize,
    pub is_primary: bool,
}

pub struct ClientNode {
    pub node: NodeId,
    pub skew_us: i64,
    /// outstanding request: request id -> (input, tag, blinded point, scalar, server index, key id at send time unknown)
    pub pending: BTreeMap<u32, Pending>,
    pub next_req: u32,
}

pub struct Pending {
    pub input: Vec<u8>,
    pub md: u8,
    pub point: pp::Point,
    pub r: pp::CurveScalar,
    pub server: usize,
}

#[derive(Clone, Debug)]
pub struct CCfg {
    /// the list passed to Server::new when it differs from `tags` (order, repeats); empty = use tags
    pub registration: Vec<u8>,
    pub n_servers: usize,
    pub n_clients: usize,
    pub tags: Vec<u8>,
    pub epoch_len_us: u64,
    pub rotate: bool,
    pub replicate: bool,
    pub crash: bool,
    pub ops: bool,
    /// synchronisation messages that arrive damaged (one tag's public point no longer decodes)
    pub damaged_sync: bool,
    pub verifiable: bool,
    pub requests_per_client: usize,
    pub inputs: Vec<Vec<u8>>,
    pub horizon_us: u64,
}

pub enum Ev {
    Request(usize),
    Deliver(Packet),
    EpochTimer,
    Snapshot(usize),
    Crash(usize),
    Op(usize),
    DamagedSync(usize),
}

/// what a completed exchange looked like, for the property oracles
pub struct Exchange<'a> {
    pub client: usize,
    pub server: usize,
    pub key_id: u64,
    pub md: u8,
    pub input: &'a [u8],
    pub blinded: &'a pp::Point,
    pub r: &'a pp::CurveScalar,
    pub eval_json: &'a [u8],
    pub pk_bytes: &'a [u8],
}

pub trait COracle {
    fn on_request(&mut self, _ctx: &mut Ctx, _w: &WorldC, _client: usize, _input: &[u8], _md: u8, _blinded: &pp::Point) -> Result<(), Violation> {
        Ok(())
    }
    fn on_exchange(&mut self, _ctx: &mut Ctx, _w: &WorldC, _x: &Exchange) -> Result<(), Violation> {
        Ok(())
    }
    fn on_export(&mut self, _ctx: &mut Ctx, _w: &WorldC, _server: usize, _blob: &[u8]) -> Result<(), Violation> {
        Ok(())
    }
    fn at_quiescence(&mut self, _ctx: &mut Ctx, _w: &WorldC) -> Result<(), Violation> {
        Ok(())
    }
}

pub struct WorldC {
    pub sim: Sim<Ev>,
    pub net: Net,
    pub cfg: CCfg,
    pub servers: Vec<ServerNode>,
    pub clients: Vec<ClientNode>,
    next_key_id: u64,
    /// blobs in flight: packet id -> model at export time
    state_models: BTreeMap<(NodeId, u32), Model>,
    /// pooled points for cross-tag sweeps
    pub pool: Vec<pp::Point>,
    /// one I/O buffer reused by every client of the process for the input bytes, as an
    /// application reading inputs into a fixed buffer would: consecutive calls see the same
    /// address and (for equal-length inputs) the same length with different content
    io_buf: Vec<u8>,
    /// half of the runs: every client is its own OS thread (released for one call at a time)
    pub client_threads: Option<crate::kernel::NodeThreads>,
}

fn point_bytes(p: &pp::Point) -> [u8; 32] {
    *p.as_bytes()
}

impl WorldC {
    pub fn new_server(ctx: &mut Ctx, node: NodeId, tags: &[u8], key_id: u64) -> Result<(pp::Server, Model), Violation> {
        let server = ctx.os.with_node(node as u64, || pp::Server::new(tags.to_vec())).map_err(|e| Violation::new("c.setup", "server_new", e.to_string()))?;
        let pk_bytes = server.get_public_key().serialize_to_bincode().map_err(|e| Violation::new("c.setup", "pk", e.to_string()))?;
        let model = Model { key_id, registered: tags.iter().copied().collect(), punctured: BTreeSet::new(), table: BTreeMap::new(), pk_bytes };
        Ok((server, model))
    }

    pub fn build(ctx: &mut Ctx, cfg: CCfg, netcfg: NetCfg) -> Result<WorldC, Violation> {
        let mut w = WorldC { sim: Sim::new(30_000), net: Net::new(netcfg), cfg: cfg.clone(), servers: Vec::new(), clients: Vec::new(), next_key_id: 1, state_models: BTreeMap::new(), pool: Vec::new(), io_buf: vec![0u8; 1024], client_threads: None };
        if ctx.ch.chance(1, 2) {
            w.client_threads = Some(crate::kernel::NodeThreads::default());
            ctx.stats.probe("runs_with_one_os_thread_per_client");
        }
        for s in 0..cfg.n_servers {
            let node = SERVER0 + s as NodeId;
            if s == 0 || !cfg.replicate {
                let kid = w.next_key_id;
                w.next_key_id += 1;
                let reg = if cfg.registration.is_empty() { cfg.tags.clone() } else { cfg.registration.clone() };
                let (server, model) = Self::new_server(ctx, node, &reg, kid)?;
                w.servers.push(ServerNode { node, server, model, snapshot: None, epoch_idx: 0, is_primary: s == 0 });
            } else {
                // a replica starts as an import of the primary's state
                let blob = bincode::serialize(&w.servers[0].server.get_private_key()).map_err(|e| Violation::new("c.setup", "export", e.to_string()))?;
                // ... either straight away (an empty server), or after it has been up and serving under a key of its
                // own: whatever a server memoised while answering before the import must not survive it
                let warm = ctx.ch.chance(1, 2);
                let reg = if cfg.registration.is_empty() { cfg.tags.clone() } else { cfg.registration.clone() };
                // ... and half of the warm ones were created with tags the primary's key was NOT created with: after
                // the import the replica is the exporter (same public key, same registered tags), nothing of its own
                // registration may survive
                let mut reg = reg;
                if warm && ctx.ch.chance(1, 2) {
                    let n = 1 + ctx.ch.index(3);
                    for _ in 0..n {
                        let t = ctx.ch.draw(256) as u8;
                        if !reg.contains(&t) {
                            reg.push(t);
                        }
                    }
                    ctx.stats.probe("warm_replica_created_with_other_tags");
                }
                let mut server = ctx.os.with_node(node as u64, || pp::Server::new(if warm { reg.clone() } else { vec![] })).map_err(|e| Violation::new("c.setup", "server_new", e.to_string()))?;
                if warm {
                    let (wp, _) = ctx.os.with_node(node as u64, || pp::Client::blind(b"warm-up"));
                    for md in &reg {
                        let _ = ctx.os.with_node(node as u64, || server.eval(&wp, *md, false));
                        let _ = ctx.os.with_node(node as u64, || server.eval(&wp, *md, true));
                    }
                    ctx.stats.probe("replicas_that_served_before_their_first_import");
                }
                let st: pp::ServerKeyState = bincode::deserialize(&blob).map_err(|e| Violation::new("c.setup", "import", e.to_string()))?;
                server.set_private_key(st);
                let model = w.servers[0].model.clone();
                w.servers.push(ServerNode { node, server, model, snapshot: None, epoch_idx: 0, is_primary: false });
            }
        }
        for c in 0..cfg.n_clients {
            let skew = if ctx.ch.chance(1, 2) { 0 } else { ctx.ch.draw(2 * cfg.epoch_len_us + 1) as i64 - cfg.epoch_len_us as i64 };
            w.clients.push(ClientNode { node: CLIENT0 + c as NodeId, skew_us: skew, pending: BTreeMap::new(), next_req: 0 });
            for _ in 0..cfg.requests_per_client {
                let at = ctx.ch.draw(cfg.horizon_us);
                w.sim.after(at, Ev::Request(c));
            }
        }
        if cfg.rotate {
            w.sim.after(cfg.epoch_len_us, Ev::EpochTimer);
        }
        if cfg.crash {
            for s in 0..cfg.n_servers {
                let n = ctx.ch.index(3);
                for _ in 0..n {
                    let at = ctx.ch.draw(cfg.horizon_us);
                    w.sim.after(at, Ev::Snapshot(s));
                }
                let n = ctx.ch.index(3);
                for _ in 0..n {
                    let at = ctx.ch.draw(cfg.horizon_us);
                    w.sim.after(at, Ev::Crash(s));
                }
            }
        }
        if cfg.ops {
            let n = ctx.ch.index(8);
            for _ in 0..n {
                let at = ctx.ch.draw(cfg.horizon_us);
                let s = ctx.ch.index(cfg.n_servers);
                w.sim.after(at, Ev::Op(s));
            }
        }
        if cfg.damaged_sync && cfg.n_servers > 1 {
            let n = 1 + ctx.ch.index(2);
            for _ in 0..n {
                let at = ctx.ch.draw(cfg.horizon_us);
                let s = ctx.ch.index(cfg.n_servers);
                w.sim.after(at, Ev::DamagedSync(s));
            }
        }
        // a pool of points for cross-tag sweeps
        for i in 0..4u8 {
            let (p, _) = ctx.os.with_node(90, || pp::Client::blind(&[i, 0x42]));
            w.pool.push(p);
        }
        ev!(ctx, "world C: servers={} clients={} tags={:?} rotate={} replicate={} crash={} ops={} verifiable={}", cfg.n_servers, cfg.n_clients, cfg.tags, cfg.rotate, cfg.replicate, cfg.crash, cfg.ops, cfg.verifiable);
        Ok(w)
    }

    fn schedule(&mut self, fate: Fate) {
        if let Fate::Sent(copies) = fate {
            for (d, p) in copies {
                self.sim.after(d, Ev::Deliver(p));
            }
        }
    }

    /// One evaluation at server `s`, compared with the model. Returns the evaluation if answered.
    pub fn eval_checked(&mut self, ctx: &mut Ctx, s: usize, point: &pp::Point, md: u8, verifiable: bool) -> Result<Option<pp::Evaluation>, Violation> {
        let node = self.servers[s].node;
        let res = {
            let srv = &self.servers[s].server;
            ctx.os.with_node(node as u64, || srv.eval(point, md, verifiable))
        };
        let m = &mut self.servers[s].model;
        let should = m.registered.contains(&md) && !m.punctured.contains(&md);
        match res {
            Ok(e) => {
                if !should {
                    return Err(Violation::new(
                        "c14.answer_iff",
                        if m.punctured.contains(&md) { "answered_punctured" } else { "answered_unregistered" },
                        format!("server {} (key {}) answered for tag {} which is {} (registered {:?}, punctured {:?})", s, m.key_id, md, if m.punctured.contains(&md) { "punctured in this key's history" } else { "not registered" }, m.registered, m.punctured),
                    ));
                }
                let out = point_bytes(&e.output);
                let k = (md, point_bytes(point));
                if let Some(prev) = m.table.get(&k) {
                    if prev != &out {
                        return Err(Violation::new("c14.answer_changed", "answer_changed", format!("server {} (key {}): the answer for tag {} and a point seen before changed", s, m.key_id, md)));
                    }
                    ctx.stats.probe("repeat_answers_identical");
                } else {
                    m.table.insert(k, out);
                }
                ctx.stats.probe("evaluations_answered");
                Ok(Some(e))
            }
            Err(err) => {
                if should {
                    return Err(Violation::new(
                        "c14.answer_iff",
                        "refused_live_tag",
                        format!("server {} (key {}) refused tag {} ({}) although it is registered and unpunctured (punctured so far {:?})", s, m.key_id, md, err, m.punctured),
                    ));
                }
                ctx.stats.probe(if m.registered.contains(&md) { "refused_punctured_tag" } else { "refused_unregistered_tag" });
                Ok(None)
            }
        }
    }

    /// Puncture at server `s`, compared with the model, followed by a sweep over pooled points.
    pub fn puncture_checked(&mut self, ctx: &mut Ctx, s: usize, md: u8) -> Result<(), Violation> {
        let already = self.servers[s].model.punctured.contains(&md);
        let res = self.servers[s].server.puncture(md);
        ev!(ctx, "t={} server {} puncture {} -> {}", self.sim.now, s, md, if res.is_ok() { "ok" } else { "err" });
        match (&res, already) {
            (Ok(()), true) => return Err(Violation::new("c14.double_puncture", "double_puncture", format!("server {}: tag {} punctured twice without error", s, md))),
            (Err(e), false) => return Err(Violation::new("c14.puncture_refused", "puncture_refused", format!("server {}: puncturing unpunctured tag {} failed: {}", s, md, e))),
            _ => {}
        }
        if res.is_ok() {
            self.servers[s].model.punctured.insert(md);
            ctx.stats.probe("punctures");
            if !self.servers[s].model.registered.contains(&md) {
                ctx.stats.probe("punctured_unregistered_tag");
            }
        } else {
            ctx.stats.probe("repeated_puncture_refused");
        }
        ctx.stats.state(mix(self.servers[s].model.key_id, self.servers[s].model.punctured.iter().fold(0u64, |a, t| mix(a, *t as u64))));
        self.sweep(ctx, s, &format!("puncturing tag {}", md))
    }

    /// Every registered tag x pooled point: answered iff live, answers unchanged; pk unchanged.
    pub fn sweep(&mut self, ctx: &mut Ctx, s: usize, after: &str) -> Result<(), Violation> {
        let tags: Vec<u8> = self.servers[s].model.registered.iter().copied().collect();
        let pool = self.pool.clone();
        for md in tags {
            for p in &pool {
                self.eval_checked(ctx, s, p, md, false).map_err(|mut v| {
                    if v.invariant == "c14.answer_changed" || v.invariant == "c14.answer_iff" {
                        v.invariant = if v.invariant == "c14.answer_changed" { "c14.cross_tag".into() } else { v.invariant };
                        v.detail = format!("{} [observed in the sweep after {}]", v.detail, after);
                    }
                    v
                })?;
            }
        }
        let pk = self.servers[s].server.get_public_key().serialize_to_bincode().map_err(|e| Violation::new("c.setup", "pk", e.to_string()))?;
        if pk != self.servers[s].model.pk_bytes {
            return Err(Violation::new("c14.pk_changed", "pk_changed", format!("server {}: the public key changed after {}", s, after)));
        }
        ctx.stats.probe("sweeps");
        Ok(())
    }

    pub fn export(&mut self, ctx: &mut Ctx, s: usize) -> Result<(Vec<u8>, Model), Violation> {
        // bincode, or (one export in four) JSON: the key state is a plain serde value. The first byte of the
        // blob is the harness's own framing (0 = bincode, 1 = JSON) and is stripped again on import.
        let mut blob;
        if ctx.ch.chance(1, 4) {
            ctx.stats.probe("key_state_exported_as_json");
            blob = vec![1u8];
            blob.extend(serde_json::to_vec(&self.servers[s].server.get_private_key()).map_err(|e| Violation::new("c.setup", "export_json", e.to_string()))?);
        } else {
            blob = vec![0u8];
            blob.extend(bincode::serialize(&self.servers[s].server.get_private_key()).map_err(|e| Violation::new("c.setup", "export", e.to_string()))?);
        }
        Ok((blob, self.servers[s].model.clone()))
    }

    pub fn import(&mut self, ctx: &mut Ctx, s: usize, blob: &[u8], model: &Model, why: &str) -> Result<(), Violation> {
        let (fmt, blob) = blob.split_first().ok_or_else(|| Violation::new("c.setup", "import", "empty key-state blob"))?;
        let st: pp::ServerKeyState = if *fmt == 1 {
            serde_json::from_slice(blob).map_err(|e| Violation::new("c14.import_differs", "import_failed", format!("a key state exported as JSON does not import: {}", e)))?
        } else {
            bincode::deserialize(blob).map_err(|e| Violation::new("c14.import_differs", "import_failed", format!("an exported key state does not import: {}", e)))?
        };
        self.servers[s].server.set_private_key(st);
        // the importer becomes a copy of the exporter AT EXPORT TIME (the answer table is kept per key)
        let mut m = model.clone();
        if self.servers[s].model.key_id == m.key_id {
            // same key: what this instance answered before stays binding ("its answer never changes")
            for (k, v) in &self.servers[s].model.table {
                m.table.entry(*k).or_insert(*v);
            }
        }
        self.servers[s].model = m;
        ev!(ctx, "t={} server {} imports key state ({}; key {}, punctured {:?})", self.sim.now, s, why, self.servers[s].model.key_id, self.servers[s].model.punctured);
        ctx.stats.probe("imports");
        self.sweep(ctx, s, &format!("importing key state ({})", why)).map_err(|mut v| {
            if v.invariant.starts_with("c14.") && v.invariant != "c14.import_differs" {
                v.detail = format!("importer differs from exporter at export time: {}", v.detail);
                v.invariant = "c14.import_differs".into();
            }
            v
        })
    }

    /// Server `s` is handed the exported state of server `o` (another key) with ONE tag's public point
    /// overwritten by bytes that are no group element - a synchronisation message damaged in transit or in
    /// storage. Whether the server takes the state, refuses it, or takes it as far as it decodes is its
    /// business; but whatever it serves afterwards must verify against the public key it publishes
    /// afterwards (completeness holds for a server, not for a key state). Its own intact state is put back
    /// at the end, so the models are untouched.
    fn damaged_sync(&mut self, ctx: &mut Ctx, s: usize, o: usize) -> Result<(), Violation> {
        let ser = |srv: &pp::Server| bincode::serialize(&srv.get_private_key()).map_err(|e| Violation::new("c.setup", "export", e.to_string()));
        let backup = ser(&self.servers[s].server)?;
        let blob = ser(&self.servers[o].server)?;
        let pk_o = self.servers[o].server.get_public_key().serialize_to_bincode().map_err(|e| Violation::new("c.setup", "pk", e.to_string()))?;
        let pos = blob.windows(pk_o.len()).position(|w| w == &pk_o[..]);
        let ntags = pk_o.len().saturating_sub(40) / 33;
        let pos = match pos {
            Some(p) if ntags >= 2 && (pk_o.len() - 40) % 33 == 0 => p,
            _ => {
                ctx.stats.probe("damaged_sync_skipped");
                return Ok(());
            }
        };
        let e = ctx.ch.index(ntags);
        let off = pos + 40 + e * 33;
        let damaged_tag = blob[off];
        let mut bad = blob.clone();
        let fill = *ctx.ch.pick(&[0xffu8, 0xfe, 0x80]);
        for b in bad[off + 1..off + 33].iter_mut() {
            *b = fill;
        }
        ctx.stats.fault("damaged_sync_message");
        ev!(ctx, "t={} server {} is handed server {}'s state with the public point of tag {} damaged", self.sim.now, s, o, damaged_tag);
        match bincode::deserialize::<pp::ServerKeyState>(&bad) {
            Ok(st) => {
                let srv = &mut self.servers[s].server;
                let _ = crate::runner::guarded(move || {
                    let _ = srv.set_private_key(st);
                });
            }
            Err(_) => ctx.stats.probe("damaged_sync_refused_at_decode"),
        }
        let pk_now = self.servers[s].server.get_public_key();
        let tags: BTreeSet<u8> = self.servers[s].model.registered.union(&self.servers[o].model.registered).copied().collect();
        let point = self.pool[0].clone();
        let node = self.servers[s].node;
        for md in tags {
            if md == damaged_tag {
                continue;
            }
            let srv = &self.servers[s].server;
            let r = crate::runner::guarded(|| ctx.os.with_node(node as u64, || srv.eval(&point, md, true)));
            if let Ok(Ok(evl)) = r {
                let ok = crate::runner::guarded(|| pp::Client::verify(&pk_now, &point, &evl, md));
                if !matches!(ok, Ok(true)) {
                    return Err(Violation::new(
                        "c13.incomplete",
                        "after_damaged_sync",
                        format!("server {}: after being handed a synchronisation message whose public point for tag {} is damaged, its verifiable answer for tag {} does not verify against the public key it publishes", s, damaged_tag, md),
                    ));
                }
                ctx.stats.probe("answers_verified_after_damaged_sync");
            }
        }
        let st: pp::ServerKeyState = bincode::deserialize(&backup).map_err(|e| Violation::new("c.setup", "import", e.to_string()))?;
        let _ = self.servers[s].server.set_private_key(st);
        self.sweep(ctx, s, "a damaged synchronisation message, then its own intact state again")
    }

    pub fn run<O: COracle>(&mut self, ctx: &mut Ctx, oracle: &mut O) -> Result<(), Violation> {
        while let Some((_seq, ev)) = self.sim.pop() {
            match ev {
                Ev::Request(c) => {
                    let input = ctx.ch.pick(&self.cfg.inputs.clone()).clone();
                    // the client's view of the current epoch follows its (skewed) clock
                    let md = if self.cfg.rotate {
                        let t = (self.sim.now as i64 + self.clients[c].skew_us).max(0) as u64;
                        let idx = (t / self.cfg.epoch_len_us) as usize;
                        if self.clients[c].skew_us != 0 {
                            ctx.stats.fault("clock_skew");
                        }
                        if idx < self.cfg.tags.len() { self.cfg.tags[idx] } else { *self.cfg.tags.last().unwrap() }
                    } else if ctx.ch.chance(1, 12) {
                        ctx.ch.draw(256) as u8 // occasionally an arbitrary (likely unregistered) tag
                    } else {
                        *ctx.ch.pick(&self.cfg.tags.clone())
                    };
                    let s = ctx.ch.index(self.servers.len());
                    let node = self.clients[c].node;
                    if self.io_buf.len() < input.len() {
                        self.io_buf.resize(input.len(), 0);
                    }
                    let n = input.len();
                    self.io_buf[..n].copy_from_slice(&input[..n]);
                    let (p, r) = if let Some(th) = self.client_threads.as_mut() {
                        // the client's own OS thread, with 256 bytes of the client's entropy stream
                        let mut entropy = vec![0u8; 256];
                        ctx.os.with_node(node as u64, || {
                            let _ = getrandom::getrandom(&mut entropy);
                        });
                        let inp = input.clone();
                        ctx.stats.probe("blind_calls_on_client_threads");
                        th.run(node, entropy, move || pp::Client::blind(&inp))
                    } else {
                        let buf = &self.io_buf[..n];
                        ctx.stats.probe("blind_calls_on_reused_buffer");
                        ctx.os.with_node(node as u64, || pp::Client::blind(buf))
                    };
                    oracle.on_request(ctx, self, c, &input, md, &p)?;
                    let rid = self.clients[c].next_req;
                    self.clients[c].next_req += 1;
                    let mut body = vec![md];
                    body.extend_from_slice(&rid.to_le_bytes());
                    body.extend(serde_json::to_vec(&p).expect("json"));
                    self.clients[c].pending.insert(rid, Pending { input: input.clone(), md, point: p, r, server: s });
                    ev!(ctx, "t={} client {} requests tag {} from server {} (req {})", self.sim.now, c, md, s, rid);
                    let to = self.servers[s].node;
                    let fate = self.net.send(ctx, node, to, CLASS_REQ, body);
                    self.schedule(fate);
                }
                Ev::Deliver(p) => match p.class {
                    CLASS_REQ => {
                        let s = (p.to - SERVER0) as usize;
                        let md = p.bytes[0];
                        let rid = [p.bytes[1], p.bytes[2], p.bytes[3], p.bytes[4]];
                        let point: pp::Point = serde_json::from_slice(&p.bytes[5..]).expect("honest request parses");
                        if self.servers[s].model.punctured.contains(&md) {
                            ctx.stats.probe("request_arrived_after_puncture");
                        }
                        let verifiable = self.cfg.verifiable;
                        if let Some(e) = self.eval_checked(ctx, s, &point, md, verifiable)? {
                            let mut body = rid.to_vec();
                            body.extend_from_slice(&self.servers[s].model.key_id.to_le_bytes());
                            body.extend(serde_json::to_vec(&e).expect("json"));
                            let from = self.servers[s].node;
                            let fate = self.net.send(ctx, from, p.from, CLASS_RESP, body);
                            self.schedule(fate);
                        }
                    }
                    CLASS_RESP => {
                        let c = (p.to - CLIENT0) as usize;
                        let rid = u32::from_le_bytes([p.bytes[0], p.bytes[1], p.bytes[2], p.bytes[3]]);
                        let mut kid = [0u8; 8];
                        kid.copy_from_slice(&p.bytes[4..12]);
                        let key_id = u64::from_le_bytes(kid);
                        let pend = match self.clients[c].pending.get(&rid) {
                            Some(p) => p,
                            None => continue,
                        };
                        let s = pend.server;
                        // the public key of the key that answered (the harness plays the PKI)
                        let pk_bytes = self.servers.iter().find(|sv| sv.model.key_id == key_id).map(|sv| sv.model.pk_bytes.clone());
                        if let Some(pk_bytes) = pk_bytes {
                            let x = Exchange { client: c, server: s, key_id, md: pend.md, input: &pend.input, blinded: &pend.point, r: &pend.r, eval_json: &p.bytes[12..], pk_bytes: &pk_bytes };
                            oracle.on_exchange(ctx, self, &x)?;
                            ctx.stats.probe("exchanges_completed");
                        }
                    }
                    CLASS_STATE => {
                        let s = (p.to - SERVER0) as usize;
                        let model = self.state_models.get(&p.id).cloned().expect("state model");
                        if !model.punctured.is_superset(&self.servers[s].model.punctured) && model.key_id == self.servers[s].model.key_id {
                            ctx.stats.probe("replica_regressed_to_older_state");
                        }
                        let bytes = p.bytes.clone();
                        self.import(ctx, s, &bytes, &model, "replication push")?;
                    }
                    _ => {}
                },
                Ev::EpochTimer => {
                    // primary punctures the epoch that just ended, then pushes its state to the replicas
                    let idx = self.servers[0].epoch_idx;
                    if idx < self.cfg.tags.len() {
                        let md = self.cfg.tags[idx];
                        if !self.servers[0].model.punctured.contains(&md) {
                            self.puncture_checked(ctx, 0, md)?;
                        }
                        self.servers[0].epoch_idx += 1;
                        if self.cfg.replicate && self.servers.len() > 1 {
                            let (blob, model) = self.export(ctx, 0)?;
                            oracle.on_export(ctx, self, 0, &blob)?;
                            for r in 1..self.servers.len() {
                                let to = self.servers[r].node;
                                let id = self.net.next_id(self.servers[0].node);
                                self.net.rewind(self.servers[0].node);
                                self.state_models.insert(id, model.clone());
                                let from = self.servers[0].node;
                                let fate = self.net.send(ctx, from, to, CLASS_STATE, blob.clone());
                                self.schedule(fate);
                            }
                        }
                        if self.sim.now < self.cfg.horizon_us + 2 * self.cfg.epoch_len_us {
                            self.sim.after(self.cfg.epoch_len_us, Ev::EpochTimer);
                        }
                    }
                }
                Ev::Snapshot(s) => {
                    if ctx.ch.chance(1, 4) {
                        ctx.stats.fault("lost_snapshot_write");
                        ev!(ctx, "t={} server {} snapshot write LOST", self.sim.now, s);
                    } else {
                        let (blob, model) = self.export(ctx, s)?;
                        oracle.on_export(ctx, self, s, &blob)?;
                        self.servers[s].snapshot = Some((blob, model));
                        ev!(ctx, "t={} server {} snapshot written", self.sim.now, s);
                        ctx.stats.probe("snapshots");
                    }
                }
                Ev::Crash(s) => {
                    ctx.stats.fault("crash_restart");
                    let node = self.servers[s].node;
                    match self.servers[s].snapshot.clone() {
                        Some((blob, model)) => {
                            if model.punctured != self.servers[s].model.punctured {
                                ctx.stats.fault("stale_snapshot");
                                ctx.stats.probe("restored_from_stale_snapshot");
                            }
                            // volatile state is gone: a fresh process, then the durable snapshot
                            self.servers[s].server = ctx.os.with_node(node as u64, || pp::Server::new(vec![])).map_err(|e| Violation::new("c.setup", "server_new", e.to_string()))?;
                            // a restart is a new process of the SAME key: earlier answers stay binding
                            self.import(ctx, s, &blob, &model, "restart from durable snapshot")?;
                        }
                        None => {
                            // nothing durable: the node comes back with a brand-new key
                            let kid = self.next_key_id;
                            self.next_key_id += 1;
                            let tags = self.cfg.tags.clone();
                            let (server, model) = Self::new_server(ctx, node, &tags, kid)?;
                            self.servers[s].server = server;
                            self.servers[s].model = model;
                            ev!(ctx, "t={} server {} restarts without snapshot: new key {}", self.sim.now, s, kid);
                            ctx.stats.probe("restart_with_new_key");
                        }
                    }
                }
                Ev::DamagedSync(s) => {
                    let o = (s + 1 + ctx.ch.index(self.servers.len() - 1)) % self.servers.len();
                    if self.servers[o].model.key_id != self.servers[s].model.key_id {
                        self.damaged_sync(ctx, s, o)?;
                    }
                }
                Ev::Op(s) => {
                    match ctx.ch.draw(5) {
                        0 => {
                            // clone-and-diverge: the clone replaces a drawn other node (or is dropped)
                            if self.servers.len() > 1 {
                                let o = (s + 1 + ctx.ch.index(self.servers.len() - 1)) % self.servers.len();
                                let cl = self.servers[s].server.clone();
                                let m = self.servers[s].model.clone();
                                if ctx.ch.chance(1, 3) {
                                    // the ORIGINAL goes away and a copy of the copy takes its place: copies are
                                    // values and outlive what they were copied from
                                    let orig = std::mem::replace(&mut self.servers[s].server, cl.clone());
                                    drop(orig);
                                    ctx.stats.probe("original_dropped_clones_live_on");
                                }
                                self.servers[o].server = cl;
                                self.servers[o].model = m;
                                ev!(ctx, "t={} server {} becomes a clone of server {}", self.sim.now, o, s);
                                ctx.stats.probe("clones");
                                // diverge: puncture on the clone only, the original must not notice
                                let live: Vec<u8> = self.servers[o].model.registered.difference(&self.servers[o].model.punctured).copied().collect();
                                if !live.is_empty() {
                                    let md = *ctx.ch.pick(&live);
                                    // diverge in a drawn direction: puncture on the clone (the original must not
                                    // notice) or on the original (the clone must not notice)
                                    let (punct, other) = if ctx.ch.chance(1, 2) { (o, s) } else { (s, o) };
                                    self.puncture_checked(ctx, punct, md)?;
                                    self.sweep(ctx, other, &format!("a puncture of {} on its clone/original", md)).map_err(|mut v| {
                                        v.invariant = "c14.clone_coupled".into();
                                        v
                                    })?;
                                    ctx.stats.probe("clone_divergence_checked");
                                }
                            }
                        }
                        1 => {
                            // puncture a boundary / unregistered / adjacent tag
                            let reg: Vec<u8> = self.servers[s].model.registered.iter().copied().collect();
                            let base = *ctx.ch.pick(&reg);
                            let md = *ctx.ch.pick(&[0u8, 255, base.wrapping_add(1), base.wrapping_sub(1), base ^ 0x80, base]);
                            self.puncture_checked(ctx, s, md)?;
                        }
                        2 => {
                            // puncture an already punctured tag again
                            let p: Vec<u8> = self.servers[s].model.punctured.iter().copied().collect();
                            if !p.is_empty() {
                                let md = *ctx.ch.pick(&p);
                                self.puncture_checked(ctx, s, md)?;
                            }
                        }
                        3 => {
                            // export -> import into another instance (manual synchronisation)
                            if self.servers.len() > 1 {
                                let o = (s + 1 + ctx.ch.index(self.servers.len() - 1)) % self.servers.len();
                                let (blob, model) = self.export(ctx, s)?;
                                oracle.on_export(ctx, self, s, &blob)?;
                                self.import(ctx, o, &blob, &model, "manual export/import")?;
                            }
                        }
                        _ => {
                            self.sweep(ctx, s, "nothing (idle sweep)")?;
                        }
                    }
                }
            }
        }
        ctx.stats.sim_time_us += self.sim.now;
        for s in 0..self.servers.len() {
            self.sweep(ctx, s, "the whole history (final sweep)")?;
        }
        oracle.at_quiescence(ctx, self)
    }
}
