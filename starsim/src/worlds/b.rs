//! World B — dealing: dealers, share holders, one combiner. The transport
//! between them is the simulated one (loss, duplication, reordering, delay,
//! truncation / corruption where the property enables it).
use crate::ev;
use crate::kernel::{Ctx, Fate, Net, NodeId, Packet, Sim, Violation};

pub const COMBINER: NodeId = 1;
pub const DEALER0: NodeId = 10;

#[derive(Clone, Debug)]
pub struct Delivery {
    pub id: (NodeId, u32),
    /// index of the message in the `msgs` vector given to `transport`
    pub msg: usize,
    pub bytes: Vec<u8>,
    pub copy: u8,
    pub flagged_corrupt: bool,
}

/// Send every message at a drawn time through `net` to the combiner and call
/// `on_deliver` for each arrival in simulated-time order. Returns at
/// quiescence.
pub fn transport(
    ctx: &mut Ctx,
    net: &mut Net,
    msgs: &[(NodeId, Vec<u8>)],
    spread_us: u64,
    mut on_deliver: impl FnMut(&mut Ctx, &Delivery) -> Result<(), Violation>,
) -> Result<(), Violation> {
    enum E {
        Send(usize),
        Deliver(Packet, usize),
    }
    let mut sim: Sim<E> = Sim::new(50_000);
    for i in 0..msgs.len() {
        let at = ctx.ch.draw(spread_us.max(1));
        sim.after(at, E::Send(i));
    }
    while let Some((_, e)) = sim.pop() {
        match e {
            E::Send(i) => {
                let (from, bytes) = &msgs[i];
                match net.send(ctx, *from, COMBINER, 1, bytes.clone()) {
                    Fate::Dropped => {}
                    Fate::Sent(copies) => {
                        for (d, p) in copies {
                            sim.after(d, E::Deliver(p, i));
                        }
                    }
                }
            }
            E::Deliver(p, i) => {
                ev!(ctx, "t={} deliver {}#{} copy{} {}B", sim.now, p.id.0, p.id.1, p.copy, p.bytes.len());
                let d = Delivery { id: p.id, msg: i, bytes: p.bytes.clone(), copy: p.copy, flagged_corrupt: p.faults.contains(&"corrupt") };
                on_deliver(ctx, &d)?;
            }
        }
    }
    ctx.stats.sim_time_us += sim.now;
    Ok(())
}
