pub mod a;
pub mod b;
pub mod c;
