pub mod a;
pub mod b;
