pub mod a;
