//! World A — STAR reporting: clients, optional randomness server, aggregator.
//! All library calls are real; the world owns transport, clock and entropy.
use crate::choices::hex_short;
use crate::ev;
use crate::faults;
use crate::kernel::{Ctx, Fate, Net, NetCfg, NodeId, Packet, Sim, Violation};
use crate::models::layout;
use ppoprf::ppoprf as pp;
use sta_rs::{AssociatedData, Message, MessageGenerator, SingleMeasurement};
use std::collections::BTreeMap;

pub const AGG: NodeId = 1;
pub const RS: NodeId = 2;
pub const CLIENT0: NodeId = 100;

pub const CLASS_REPORT: u8 = 1;
pub const CLASS_REQ: u8 = 2;
pub const CLASS_RESP: u8 = 3;

#[derive(Clone, Debug, PartialEq, Eq)]
pub enum RandSrc {
    Local,
    Arbitrary([u8; 32]),
    Oprf { md: u8 },
}

#[derive(Clone, Debug)]
pub struct Group {
    pub id: usize,
    pub measurement: Vec<u8>,
    pub epoch: Vec<u8>,
    pub threshold: u32,
    pub src: RandSrc,
    pub clients: Vec<usize>,
}

pub struct Client {
    pub idx: usize,
    pub node: NodeId,
    pub group: usize,
    pub aux: Option<Vec<u8>>,
    pub start_us: u64,
    pub reported: bool,
    pub blind: Option<(pp::Point, pp::CurveScalar)>,
    pub rnd: Option<[u8; 32]>,
}

#[derive(Clone, Debug)]
pub struct Sent {
    pub id: (NodeId, u32),
    pub client: usize,
    pub group: usize,
    pub bytes: Vec<u8>,
    /// the value the sender encoded (for round-trip checks)
    pub msg: Message,
}

#[derive(Clone, Debug)]
pub struct Delivered {
    pub id: (NodeId, u32),
    pub copy: u8,
    pub bytes: Vec<u8>,
    pub faults: Vec<&'static str>,
    pub at: u64,
}

#[derive(Clone, Debug)]
pub struct GenCfg {
    pub max_groups: usize,
    pub min_groups: usize,
    pub max_clients_total: usize,
    pub thresholds: Vec<u32>,
    pub min_threshold: u32,
    pub sources: Vec<u8>, // 0 local, 1 arbitrary, 2 oprf
    pub confusable: bool,
    pub relatives: bool,
    pub meas_lens: Vec<usize>,
    pub aux_kinds: Vec<i64>, // -1 none, otherwise length
    pub same_epoch_threshold: bool,
    pub utf8_epochs: bool,
    /// client counts relative to t: candidates are computed from these offsets
    pub count_offsets: Vec<i64>,
    pub corrupt_kinds: Vec<&'static str>,
    /// per-mille chance that a client's entropy for its report begins with a burst of zero or
    /// all-one bytes (rare but legal output of a healthy source; 0 = never)
    pub entropy_burst: u64,
    /// per-mille chance that a client's entropy source FAILS while it builds its report (system-call failure)
    pub entropy_failure: u64,
}

impl GenCfg {
    pub fn standard(thorough: bool) -> Self {
        let mut thresholds = vec![1, 1, 2, 2, 2, 2, 3, 3, 3, 4, 5, 5, 7, 8, 13, 16, 20, 31, 32, 33, 64];
        if thorough {
            thresholds.extend([2, 3, 4, 6, 10, 48, 65, 80, 96]);
        }
        GenCfg {
            max_groups: if thorough { 8 } else { 5 },
            min_groups: 1,
            max_clients_total: if thorough { 220 } else { 120 },
            thresholds,
            min_threshold: 1,
            sources: vec![0, 0, 0, 1, 1, 2],
            confusable: false,
            relatives: false,
            meas_lens: vec![0, 1, 2, 5, 11, 11, 20, 20, 32, 32, 100, 158, 162, 166, 170, 400, 1500, 4096],
            aux_kinds: vec![-1, -1, 0, 1, 4, 4, 20, 100, 150, 166, 300, 1000, 5000],
            same_epoch_threshold: false,
            utf8_epochs: false,
            count_offsets: vec![-1, 0, 0, 1, 1, 2, 3],
            corrupt_kinds: vec![],
            entropy_burst: 0,
            entropy_failure: 0,
        }
    }
}

pub enum Ev {
    ClientStart(usize),
    Deliver(Packet),
    Tick,
}

pub struct WorldA {
    pub sim: Sim<Ev>,
    pub net: Net,
    pub groups: Vec<Group>,
    pub clients: Vec<Client>,
    pub sent: BTreeMap<(NodeId, u32), Sent>,
    pub delivered: Vec<Delivered>,
    pub rs: Option<pp::Server>,
    pub rs_pk_bytes: Vec<u8>,
    pub gen: GenCfg,
    /// a third of the runs: every client is its own OS thread (released for one call at a time), so
    /// that state the library keeps per thread is per client, as for clients that are separate processes
    pub client_threads: Option<crate::kernel::NodeThreads>,
    /// a third of the single-thread runs: ONE MessageGenerator object per group is reused for every
    /// report of that group (an application that builds the generator once and reports repeatedly,
    /// as the crate's own doc examples do), so per-object history matters
    pub reuse_generators: bool,
    generators: BTreeMap<usize, MessageGenerator>,
}

/// A client application holding a textual measurement builds it with `From<&str>`; one holding
/// bytes uses `new`. Both are public constructors and must agree.
pub fn make_measurement(bytes: &[u8]) -> SingleMeasurement {
    match std::str::from_utf8(bytes) {
        Ok(s) => SingleMeasurement::from(s),
        Err(_) => SingleMeasurement::new(bytes),
    }
}

pub trait AOracle {
    fn on_sent(&mut self, _ctx: &mut Ctx, _w: &WorldA, _s: &Sent) -> Result<(), Violation> {
        Ok(())
    }
    fn on_deliver(&mut self, _ctx: &mut Ctx, _w: &WorldA, _idx: usize) -> Result<(), Violation> {
        Ok(())
    }
    fn on_tick(&mut self, _ctx: &mut Ctx, _w: &WorldA) -> Result<(), Violation> {
        Ok(())
    }
    fn at_quiescence(&mut self, _ctx: &mut Ctx, _w: &WorldA) -> Result<(), Violation> {
        Ok(())
    }
}

fn epoch_bytes(ctx: &mut Ctx, utf8: bool) -> Vec<u8> {
    if utf8 {
        // (labels with surrounding whitespace, a NUL, upper case included: whoever normalises the label on one
        // side only - trim, lower-case, C string - no longer agrees with the clients)
        let cands: [&str; 16] = ["", "t", "epoch-1", "2024-W07", "é", "日本語のエポック", "😀", "a\u{0301}b", " ", "epoch-1\n", " epoch-1", "epoch-1 ", "\tt", "Epoch-1", "e\u{0}", "x\u{3000}"];
        return ctx.ch.pick(&cands).as_bytes().to_vec();
    }
    match ctx.ch.draw(8) {
        0 => b"t".to_vec(),
        1 => Vec::new(),
        7 => ctx.ch.pick(&[&b" epoch-1\n"[..], &b" "[..], &b"epoch-1\0"[..], &b"\0"[..], &b"Epoch-1"[..]]).to_vec(),
        2 => ctx.ch.bytes(1),
        3 => ctx.ch.bytes(8),
        4 => ctx.ch.bytes(32),
        5 => b"epoch-2023-10".to_vec(),
        _ => ctx.ch.bytes(200),
    }
}

impl WorldA {
    pub fn build(ctx: &mut Ctx, gen: GenCfg, netcfg: NetCfg, swarm_net: bool) -> WorldA {
        // ---- swarm: which transport fault kinds are on in this run
        let mut nc = netcfg;
        if swarm_net {
            if nc.drop > 0 && !ctx.ch.chance(2, 3) {
                nc.drop = 0;
            }
            if nc.dup > 0 && !ctx.ch.chance(2, 3) {
                nc.dup = 0;
            }
            if nc.jitter_us > 0 && !ctx.ch.chance(3, 4) {
                nc.jitter_us = 0;
            }
            if nc.long_delay > 0 && !ctx.ch.chance(1, 2) {
                nc.long_delay = 0;
            }
            if nc.replay > 0 && !ctx.ch.chance(1, 2) {
                nc.replay = 0;
            }
        }
        ev!(ctx, "net drop={} dup={} jitter={} long_delay={} replay={} corrupt={} misdeliver={}", nc.drop, nc.dup, nc.jitter_us, nc.long_delay, nc.replay, nc.corrupt, nc.misdeliver);
        let mut w = WorldA {
            sim: Sim::new(20_000),
            net: Net::new(nc),
            groups: Vec::new(),
            clients: Vec::new(),
            sent: BTreeMap::new(),
            delivered: Vec::new(),
            rs: None,
            rs_pk_bytes: Vec::new(),
            gen,
            client_threads: None,
            reuse_generators: false,
            generators: BTreeMap::new(),
        };
        if ctx.ch.chance(1, 3) {
            w.client_threads = Some(crate::kernel::NodeThreads::default());
            ctx.stats.probe("runs_with_one_os_thread_per_client");
        } else if ctx.ch.chance(1, 2) {
            w.reuse_generators = true;
            ctx.stats.probe("runs_reusing_one_generator_per_group");
        }
        w.gen_groups(ctx);
        if w.clients.len() > 96 {
            // one OS thread per client is for small worlds; thousands of clients times 16 batch
            // workers would exhaust the process's thread budget
            w.client_threads = None;
        }
        w
    }

    fn gen_groups(&mut self, ctx: &mut Ctx) {
        let gen = self.gen.clone();
        let ngroups = gen.min_groups.max(1) + ctx.ch.index(gen.max_groups + 1 - gen.min_groups.max(1).min(gen.max_groups));
        let mut triples: Vec<(Vec<u8>, Vec<u8>, u32)> = Vec::new();
        let shared_epoch = epoch_bytes(ctx, gen.utf8_epochs);
        let shared_t = (*ctx.ch.pick(&gen.thresholds)).max(gen.min_threshold);
        if gen.confusable {
            // family of confusable triples around one base string
            let blen = 2 + ctx.ch.index(12);
            let mut base = ctx.ch.bytes(blen);
            if ctx.ch.chance(1, 2) {
                // textual measurements / epochs
                for b in base.iter_mut() {
                    *b = b'a' + (*b % 26);
                }
            }
            let t = (*ctx.ch.pick(&gen.thresholds)).max(gen.min_threshold);
            let mut cands: Vec<(Vec<u8>, Vec<u8>, u32)> = Vec::new();
            for i in 0..=base.len() {
                cands.push((base[..i].to_vec(), base[i..].to_vec(), t));
            }
            let k = ctx.ch.draw(5) as u32;
            cands.push((base.clone(), base.clone(), t));
            cands.push((base.clone(), Vec::new(), t ^ 1));
            cands.push((base.clone(), Vec::new(), t ^ (1 << k)));
            cands.push((base.clone(), Vec::new(), t + 256));
            let mut b2 = base.clone();
            b2.extend_from_slice(&t.to_le_bytes());
            cands.push((b2.clone(), Vec::new(), t));
            cands.push((Vec::new(), b2, t));
            let mut b3 = base.clone();
            b3.push(0);
            cands.push((b3, Vec::new(), t));
            cands.push((base[..base.len() - 1].to_vec(), vec![base[base.len() - 1]], t));
            // epoch/threshold boundary under VARIABLE-LENGTH encodings of the threshold (decimal, hex,
            // minimal bytes): epoch || enc(t) can be split in several ways, e.g. ("2024-1", 5) / ("2024-", 15)
            {
                let tb = 11 + ctx.ch.draw(289) as u32; // 11..299
                let prefix: Vec<u8> = if ctx.ch.chance(1, 2) { b"2024-".to_vec() } else { base.clone() };
                let dec = tb.to_string();
                for cut in 0..dec.len() {
                    let (head, tail) = dec.split_at(cut);
                    if tail.starts_with('0') {
                        continue;
                    }
                    if let Ok(tt) = tail.parse::<u32>() {
                        let mut e = prefix.clone();
                        e.extend_from_slice(head.as_bytes());
                        cands.push((base.clone(), e, tt));
                    }
                }
                let hex = format!("{:x}", tb);
                for cut in 0..hex.len() {
                    let (head, tail) = hex.split_at(cut);
                    if tail.starts_with('0') {
                        continue;
                    }
                    if let Ok(tt) = u32::from_str_radix(tail, 16) {
                        let mut e = prefix.clone();
                        e.extend_from_slice(head.as_bytes());
                        cands.push((base.clone(), e, tt));
                    }
                }
                // minimal little-endian bytes: t = 256 + b  <->  epoch ending in byte b, t = 1
                let b = 1 + ctx.ch.draw(40) as u8;
                let mut e = prefix.clone();
                cands.push((base.clone(), e.clone(), 256 + b as u32));
                e.push(b);
                cands.push((base.clone(), e, 1));
            }
            let family_bias = ctx.ch.chance(1, 3);
            let n_c = cands.len();
            for k in 0..ngroups.max(2) {
                // every third run concentrates on the variable-length-encoding family (the tail of cands)
                let c = if family_bias { cands[n_c - 1 - (k + ctx.ch.index(3)) % 8.min(n_c)].clone() } else { ctx.ch.pick(&cands).clone() };
                if c.2 >= 1 && !triples.contains(&c) {
                    triples.push(c);
                }
            }
            if triples.is_empty() {
                triples.push((base.clone(), Vec::new(), t));
            }
        } else {
            for _ in 0..ngroups {
                let ml = *ctx.ch.pick(&gen.meas_lens);
                let m = ctx.ch.bytes(ml);
                let (e, t) = if gen.same_epoch_threshold {
                    (shared_epoch.clone(), shared_t)
                } else {
                    (epoch_bytes(ctx, gen.utf8_epochs), (*ctx.ch.pick(&gen.thresholds)).max(gen.min_threshold))
                };
                let c = (m, e, t);
                if !triples.contains(&c) {
                    triples.push(c);
                }
            }
        }
        // relative index -> index of the group whose randomness SOURCE it shares (only when the
        // thresholds differ: with one source and one threshold the two sharings would legitimately
        // be the same polynomial)
        let mut share_src_with: BTreeMap<usize, usize> = BTreeMap::new();
        if gen.relatives && !triples.is_empty() {
            // relatives of existing groups: same measurement under another epoch / threshold
            let n = 1 + ctx.ch.index(2);
            for _ in 0..n {
                let oi = ctx.ch.index(triples.len());
                let (m, e, t) = triples[oi].clone();
                let kind = ctx.ch.draw(5);
                if kind == 4 && !gen.utf8_epochs {
                    // a pair of epochs that differ only inside bytes that are not valid UTF-8
                    let (hi1, hi2) = *ctx.ch.pick(&[(0x80u8, 0x81u8), (0xff, 0xfe), (0xc0, 0xc1), (0xf8, 0x9f)]);
                    for hi in [hi1, hi2] {
                        let mut e2 = e.clone();
                        e2.push(hi);
                        let rel = (m.clone(), e2, t);
                        if !triples.contains(&rel) {
                            triples.push(rel);
                        }
                    }
                    continue;
                }
                let rel = match kind.min(3) {
                    0 => (m, epoch_bytes(ctx, gen.utf8_epochs), t),
                    1 => (m, e, t + 1),
                    2 => (m, e, (t - 1).max(gen.min_threshold)),
                    _ => (m, epoch_bytes(ctx, gen.utf8_epochs), (*ctx.ch.pick(&gen.thresholds)).max(gen.min_threshold)),
                };
                if !triples.contains(&rel) {
                    if rel.2 != t && ctx.ch.chance(2, 3) {
                        share_src_with.insert(triples.len(), oi);
                    }
                    triples.push(rel);
                }
            }
        }
        let mut srcs: Vec<RandSrc> = Vec::new();
        let mut total = 0usize;
        let mut finals: Vec<(Vec<u8>, Vec<u8>, u32)> = Vec::new();
        for (ti, (m, e, t)) in triples.into_iter().enumerate() {
            let gi = self.groups.len();
            // (transitively: no other group that already uses this randomness may have the same threshold,
            // otherwise the two would legitimately be ONE sharing - same (t, r0, r1) - under two epochs)
            let inherited = share_src_with.get(&ti).and_then(|o| srcs.get(*o).cloned()).filter(|s| match s {
                RandSrc::Arbitrary(_) => !self.groups.iter().any(|g| &g.src == s && g.threshold == t),
                RandSrc::Oprf { .. } => !self.groups.iter().any(|g| &g.src == s && g.measurement == m && g.threshold == t),
                RandSrc::Local => true,
            });
            let src = if let Some(s) = inherited {
                ctx.stats.probe("groups_sharing_client_randomness_across_thresholds");
                s
            } else {
                match *ctx.ch.pick(&gen.sources) {
                0 => RandSrc::Local,
                1 => {
                    let b = ctx.ch.bytes(32);
                    let mut a = [0u8; 32];
                    a.copy_from_slice(&b);
                    // distinct groups never share an "arbitrary" randomness string
                    a[0] = gi as u8;
                    a[1] = 0xA5;
                    RandSrc::Arbitrary(a)
                }
                _ => RandSrc::Oprf { md: ctx.ch.draw(4) as u8 },
                }
            };
            srcs.push(src.clone());
            let e = match &src {
                RandSrc::Oprf { md } => vec![*md],
                _ => e,
            };
            let fin = (m.clone(), e.clone(), t);
            if finals.contains(&fin) {
                continue;
            }
            finals.push(fin);
            let off = *ctx.ch.pick(&gen.count_offsets);
            let mut n = if ctx.ch.chance(1, 8) { 2 * t as i64 } else { t as i64 + off };
            if ctx.ch.chance(1, 12) {
                n = 1;
            }
            let mut n = n.max(1) as usize;
            let room = gen.max_clients_total.saturating_sub(total);
            if n > room {
                if room == 0 {
                    break;
                }
                n = room;
            }
            total += n;
            let epoch = e;
            let mut g = Group { id: gi, measurement: m, epoch, threshold: t, src, clients: Vec::new() };
            for _ in 0..n {
                let idx = self.clients.len();
                let ak = *ctx.ch.pick(&gen.aux_kinds);
                let aux = if ak < 0 { None } else { Some(ctx.ch.bytes(ak as usize)) };
                let start_us = ctx.ch.draw(1_000_000);
                self.clients.push(Client {
                    idx,
                    node: CLIENT0 + idx as NodeId,
                    group: gi,
                    aux,
                    start_us,
                    reported: false,
                    blind: None,
                    rnd: None,
                });
                g.clients.push(idx);
            }
            ev!(ctx, "group {} m={} e={} t={} src={:?} clients={}", gi, hex_short(&g.measurement), hex_short(&g.epoch), g.threshold, match &g.src { RandSrc::Local => "local".to_string(), RandSrc::Arbitrary(a) => format!("arbitrary {}", hex_short(a)), RandSrc::Oprf{md} => format!("oprf md={}", md) }, g.clients.len());
            self.groups.push(g);
        }
        if self.groups.iter().any(|g| matches!(g.src, RandSrc::Oprf { .. })) {
            let srv = ctx.os.with_node(RS as u64, || pp::Server::new(vec![0, 1, 2, 3]).expect("server"));
            self.rs_pk_bytes = srv.get_public_key().serialize_to_bincode().expect("pk");
            self.rs = Some(srv);
            ev!(ctx, "randomness server up, pk {}B", self.rs_pk_bytes.len());
        }
        for c in &self.clients {
            self.sim.after(c.start_us, Ev::ClientStart(c.idx));
        }
    }

    fn schedule(&mut self, ctx: &mut Ctx, fate: Fate) {
        if let Fate::Sent(copies) = fate {
            for (d, p) in copies {
                let _ = ctx;
                self.sim.after(d, Ev::Deliver(p));
            }
        }
    }

    /// Client `c` produces and sends its report, given the group randomness.
    fn report<O: AOracle>(&mut self, ctx: &mut Ctx, c: usize, rnd: [u8; 32], oracle: &mut O) -> Result<(), Violation> {
        let g = self.groups[self.clients[c].group].clone();
        let node = self.clients[c].node;
        let aux = self.clients[c].aux.clone();
        // entropy fault: this client's source starts with a burst of identical bytes
        let burst: Vec<u8> = if ctx.ch.chance(self.gen.entropy_burst, 1000) {
            ctx.stats.fault("entropy_burst");
            let (byte, len) = *ctx.ch.pick(&[(0u8, 24usize), (0, 48), (0, 72), (0xff, 16), (0xff, 24), (0xff, 48), (0, 16)]);
            vec![byte; len]
        } else {
            Vec::new()
        };
        let bytes = if let Some(th) = self.client_threads.as_mut() {
            let mut entropy = vec![0u8; 256];
            ctx.os.with_node(node as u64, || {
                let _ = getrandom::getrandom(&mut entropy);
            });
            entropy[..burst.len()].copy_from_slice(&burst);
            let (gm, ge, gt, gaux) = (g.measurement.clone(), g.epoch.clone(), g.threshold, aux.clone());
            th.run(node, entropy, move || {
                let mg = MessageGenerator::new(make_measurement(&gm), gt, &ge);
                let m = Message::generate(&mg, &rnd, gaux.as_ref().map(|a| AssociatedData::new(a))).map_err(|e| e.to_string())?;
                Ok::<(Vec<u8>, Message), String>((m.to_bytes(), m))
            })
        } else if self.reuse_generators {
            let mg = self.generators.entry(g.id).or_insert_with(|| MessageGenerator::new(make_measurement(&g.measurement), g.threshold, &g.epoch));
            ctx.os.with_node_prefix(node as u64, burst, || {
                let m = Message::generate(mg, &rnd, aux.as_ref().map(|a| AssociatedData::new(a))).map_err(|e| e.to_string())?;
                Ok::<(Vec<u8>, Message), String>((m.to_bytes(), m))
            })
        } else {
            // entropy fault: the client's source FAILS (the getrandom call returns an error) for its first
            // request(s) while the report is built. The library's reaction at this commit is a panic in OsRng;
            // the client is then a crashed client that reports nothing. A client that carries on regardless
            // must still not hand out the point another such client hands out.
            let fail = self.gen.entropy_failure > 0 && ctx.ch.chance(self.gen.entropy_failure, 1000);
            if fail {
                ctx.stats.fault("entropy_source_failure");
                getrandom::sim::fail_next(1 + ctx.ch.draw(3));
            }
            let os = &mut ctx.os;
            let r = crate::runner::guarded(|| {
                os.with_node_prefix(node as u64, burst, || {
                    let mg = MessageGenerator::new(make_measurement(&g.measurement), g.threshold, &g.epoch);
                    let m = Message::generate(&mg, &rnd, aux.as_ref().map(|a| AssociatedData::new(a))).map_err(|e| e.to_string())?;
                    Ok::<(Vec<u8>, Message), String>((m.to_bytes(), m))
                })
            });
            getrandom::sim::fail_next(0);
            match r {
                Ok(x) => x,
                Err(_) if fail => {
                    ctx.stats.probe("client_crashed_on_entropy_failure");
                    self.clients[c].reported = true; // (only consulted to ignore repeated randomness responses)
                    ev!(ctx, "t={} client {} (group {}) crashed: its entropy source failed", self.sim.now, c, g.id);
                    return Ok(());
                }
                Err((loc, msg)) => return Err(Violation::new("a.generate_failed", "generate_panicked", format!("client {} panicked while generating a report at {}: {}", c, loc, msg))),
            }
        };
        let (bytes, msg) = match bytes {
            Ok(b) => b,
            Err(e) => {
                return Err(Violation::new("a.generate_failed", "generate", format!("client {} could not generate a report: {}", c, e)));
            }
        };
        self.clients[c].reported = true;
        self.clients[c].rnd = Some(rnd);
        let id_preview = self.net_peek_id(node);
        let s = Sent { id: id_preview, client: c, group: g.id, bytes: bytes.clone(), msg };
        ev!(ctx, "t={} client {} (group {}) reports {}B aux={}", self.sim.now, c, g.id, bytes.len(), match &aux { None => "none".to_string(), Some(a) => format!("{}B", a.len()) });
        oracle.on_sent(ctx, self, &s)?;
        self.sent.insert(s.id, s);
        let fate = self.net.send(ctx, node, AGG, CLASS_REPORT, bytes);
        self.schedule(ctx, fate);
        Ok(())
    }

    fn net_peek_id(&mut self, node: NodeId) -> (NodeId, u32) {
        // the id the next send from `node` will get
        let id = self.net.next_id(node);
        // undo the increment: Net::send will take the same number again
        self.net_rewind(node);
        id
    }
    fn net_rewind(&mut self, node: NodeId) {
        self.net.rewind(node);
    }

    pub fn run<O: AOracle>(&mut self, ctx: &mut Ctx, oracle: &mut O) -> Result<(), Violation> {
        let mut since_tick = 0u32;
        while let Some((_seq, ev)) = self.sim.pop() {
            match ev {
                Ev::ClientStart(c) => {
                    let g = self.groups[self.clients[c].group].clone();
                    match g.src {
                        RandSrc::Local => {
                            let mg = MessageGenerator::new(make_measurement(&g.measurement), g.threshold, &g.epoch);
                            let mut rnd = [0u8; 32];
                            mg.sample_local_randomness(&mut rnd);
                            self.report(ctx, c, rnd, oracle)?;
                        }
                        RandSrc::Arbitrary(r) => {
                            self.report(ctx, c, r, oracle)?;
                        }
                        RandSrc::Oprf { md } => {
                            let node = self.clients[c].node;
                            let (p, r) = ctx.os.with_node(node as u64, || pp::Client::blind(&g.measurement));
                            let mut body = vec![md];
                            body.extend(serde_json::to_vec(&p).expect("json"));
                            self.clients[c].blind = Some((p, r));
                            ev!(ctx, "t={} client {} requests randomness md={}", self.sim.now, c, md);
                            let fate = self.net.send(ctx, node, RS, CLASS_REQ, body);
                            self.schedule(ctx, fate);
                        }
                    }
                }
                Ev::Deliver(p) => match p.class {
                    CLASS_REQ => {
                        let md = p.bytes[0];
                        let point: pp::Point = serde_json::from_slice(&p.bytes[1..]).expect("honest request parses");
                        let srv = self.rs.as_ref().expect("rs");
                        let evl = ctx.os.with_node(RS as u64, || srv.eval(&point, md, true));
                        match evl {
                            Ok(e) => {
                                let body = serde_json::to_vec(&e).expect("json");
                                let fate = self.net.send(ctx, RS, p.from, CLASS_RESP, body);
                                self.schedule(ctx, fate);
                            }
                            Err(e) => {
                                return Err(Violation::new("a.rs_refused", "rs", format!("randomness server refused an honest request: {}", e)));
                            }
                        }
                    }
                    CLASS_RESP => {
                        let c = (p.to - CLIENT0) as usize;
                        if self.clients[c].reported {
                            ev!(ctx, "client {} ignores repeated response", c);
                            continue;
                        }
                        let g = self.groups[self.clients[c].group].clone();
                        let md = match g.src {
                            RandSrc::Oprf { md } => md,
                            _ => unreachable!(),
                        };
                        let e: pp::Evaluation = serde_json::from_slice(&p.bytes).expect("honest response parses");
                        let pk = pp::ServerPublicKey::load_from_bincode(&self.rs_pk_bytes).expect("pk loads");
                        let (bp, r) = self.clients[c].blind.take().expect("blind state");
                        if !pp::Client::verify(&pk, &bp, &e, md) {
                            return Err(Violation::new("a.rs_proof", "rs", "honest evaluation did not verify"));
                        }
                        let un = pp::Client::unblind(&e.output, &r);
                        let mut rnd = [0u8; 32];
                        pp::Client::finalize(&g.measurement, md, &un, &mut rnd);
                        ctx.stats.probe("oprf_exchange_completed");
                        self.report(ctx, c, rnd, oracle)?;
                    }
                    _ => {
                        let mut bytes = p.bytes.clone();
                        let mut fl = p.faults.clone();
                        if p.faults.contains(&"corrupt") && !self.gen.corrupt_kinds.is_empty() {
                            let lay = layout::report_fields(&bytes);
                            let pool: Vec<Vec<u8>> = self.sent.values().take(8).map(|s| s.bytes.clone()).collect();
                            let kinds = self.gen.corrupt_kinds.clone();
                            let (b, k) = faults::corrupt(ctx, &bytes, &lay, &kinds, &pool);
                            bytes = b;
                            fl.retain(|f| *f != "corrupt");
                            if k != "noop" {
                                ctx.stats.fault(k);
                                fl.push(k);
                            }
                        }
                        ev!(ctx, "t={} deliver {}#{} copy{} {}B faults={:?}", self.sim.now, p.id.0, p.id.1, p.copy, bytes.len(), fl);
                        ctx.log.wire(&bytes);
                        self.delivered.push(Delivered { id: p.id, copy: p.copy, bytes, faults: fl, at: self.sim.now });
                        let idx = self.delivered.len() - 1;
                        oracle.on_deliver(ctx, self, idx)?;
                        since_tick += 1;
                        if since_tick >= 1 && ctx.ch.chance(1, 6) {
                            since_tick = 0;
                            ev!(ctx, "t={} aggregation attempt", self.sim.now);
                            oracle.on_tick(ctx, self)?;
                        }
                    }
                },
                Ev::Tick => {
                    oracle.on_tick(ctx, self)?;
                }
            }
        }
        ctx.stats.sim_time_us += self.sim.now;
        ev!(ctx, "t={} quiescence: {} sent, {} delivered", self.sim.now, self.sent.len(), self.delivered.len());
        oracle.at_quiescence(ctx, self)
    }

    /// provenance of a delivered report
    pub fn origin(&self, d: &Delivered) -> &Sent {
        &self.sent[&d.id]
    }
}
