//! Byte-level corruption kinds applied by the simulated transport.
use crate::kernel::Ctx;

#[derive(Clone, Debug, Default)]
pub struct Layout {
    /// offsets of 4-byte little-endian length / threshold fields
    pub len_fields: Vec<usize>,
    /// named byte ranges (for field-targeted faults and field swaps)
    pub fields: Vec<(&'static str, usize, usize)>,
}

pub const KINDS: &[&str] = &[
    "bitflip", "byteset00", "bytesetff", "byteinc", "truncate", "extend", "lenfield", "splice",
    "fieldswap", "garbage",
];

pub fn lenfield_values(true_val: u32, remaining: usize) -> Vec<u32> {
    let r = remaining as u64;
    let mut v: Vec<u64> = vec![
        0,
        1,
        true_val as u64 + 1,
        (true_val as u64).saturating_sub(1),
        r,
        r + 1,
        r.saturating_sub(1),
        r.saturating_sub(4),
        23,
        24,
        25,
        48,
        1 << 31,
        (1u64 << 32) - 5,
        (1u64 << 32) - 4,
        (1u64 << 32) - 3,
        (1u64 << 32) - 2,
        (1u64 << 32) - 1,
    ];
    v.retain(|x| *x <= u32::MAX as u64);
    v.into_iter().map(|x| x as u32).collect()
}

/// Apply one drawn corruption. `kinds` restricts the menu (indices into KINDS
/// by name); `pool` supplies other in-flight messages for splice / fieldswap.
pub fn corrupt(
    ctx: &mut Ctx,
    bytes: &[u8],
    layout: &Layout,
    kinds: &[&'static str],
    pool: &[Vec<u8>],
) -> (Vec<u8>, &'static str) {
    let kind = *ctx.ch.pick(kinds);
    let mut out = bytes.to_vec();
    match kind {
        "bitflip" | "byteset00" | "bytesetff" | "byteinc" => {
            if out.is_empty() {
                return (out, "noop");
            }
            // half of the time target a named field so that small fields get hit
            let pos = if !layout.fields.is_empty() && ctx.ch.chance(1, 2) {
                let (_, a, b) = *ctx.ch.pick(&layout.fields);
                if b > a { a + ctx.ch.index(b - a) } else { ctx.ch.index(out.len()) }
            } else {
                ctx.ch.index(out.len())
            };
            let pos = pos.min(out.len() - 1);
            match kind {
                "bitflip" => out[pos] ^= 1 << ctx.ch.draw(8),
                "byteset00" => out[pos] = 0x00,
                "bytesetff" => out[pos] = 0xff,
                _ => out[pos] = out[pos].wrapping_add(1),
            }
        }
        "truncate" => {
            let k = ctx.ch.index(out.len() + 1);
            out.truncate(k);
        }
        "extend" => {
            let k = 1 + ctx.ch.index(40);
            let extra = ctx.ch.bytes(k);
            out.extend(extra);
        }
        "lenfield" => {
            if layout.len_fields.is_empty() {
                return (out, "noop");
            }
            let off = *ctx.ch.pick(&layout.len_fields);
            if off + 4 > out.len() {
                return (out, "noop");
            }
            let cur = u32::from_le_bytes([out[off], out[off + 1], out[off + 2], out[off + 3]]);
            let vals = lenfield_values(cur, out.len() - off - 4);
            let v = *ctx.ch.pick(&vals);
            out[off..off + 4].copy_from_slice(&v.to_le_bytes());
        }
        "splice" => {
            if pool.is_empty() || out.is_empty() {
                return (out, "noop");
            }
            let other = ctx.ch.pick(pool).clone();
            let a = ctx.ch.index(out.len() + 1);
            let b = ctx.ch.index(other.len() + 1);
            out.truncate(a);
            out.extend_from_slice(&other[b..]);
        }
        "fieldswap" => {
            if pool.is_empty() || layout.fields.is_empty() {
                return (out, "noop");
            }
            let other = ctx.ch.pick(pool).clone();
            let (_, a, b) = *ctx.ch.pick(&layout.fields);
            if b <= out.len() && b <= other.len() {
                out[a..b].copy_from_slice(&other[a..b]);
            } else {
                return (out, "noop");
            }
        }
        "garbage" => {
            let k = ctx.ch.index(300);
            out = ctx.ch.bytes(k);
        }
        _ => unreachable!(),
    }
    if out == bytes {
        return (out, "noop");
    }
    (out, kind)
}
