//! Independent big-integer Shamir over p = 2^128 + 12451 (num-bigint only;
//! shares no code with star-sharks / ff).
use num_bigint::BigUint;
use num_traits::{One, Zero};

pub fn p() -> BigUint {
    (BigUint::one() << 128) + BigUint::from(12451u32)
}

pub fn from_le24(b: &[u8]) -> BigUint {
    BigUint::from_bytes_le(b)
}
pub fn to_le24(v: &BigUint) -> [u8; 24] {
    let mut out = [0u8; 24];
    let b = v.to_bytes_le();
    out[..b.len()].copy_from_slice(&b);
    out
}

pub fn sub(a: &BigUint, b: &BigUint, p: &BigUint) -> BigUint {
    ((a + p) - (b % p)) % p
}
pub fn inv(a: &BigUint, p: &BigUint) -> BigUint {
    a.modpow(&(p - BigUint::from(2u32)), p)
}

/// Horner evaluation; `coeffs[0]` is the constant term.
pub fn eval(coeffs: &[BigUint], x: &BigUint, p: &BigUint) -> BigUint {
    let mut acc = BigUint::zero();
    for c in coeffs.iter().rev() {
        acc = (acc * x + c) % p;
    }
    acc
}

/// Lagrange interpolation at 0 through points with pairwise distinct x.
pub fn lagrange_at_zero(pts: &[(BigUint, BigUint)], p: &BigUint) -> BigUint {
    let mut acc = BigUint::zero();
    for (i, (xi, yi)) in pts.iter().enumerate() {
        let mut num = BigUint::one();
        let mut den = BigUint::one();
        for (j, (xj, _)) in pts.iter().enumerate() {
            if i == j {
                continue;
            }
            num = num * xj % p;
            den = den * sub(xj, xi, p) % p;
        }
        acc = (acc + yi * num % p * inv(&den, p)) % p;
    }
    acc
}

/// Coefficients (constant term first) of the unique polynomial of degree
/// <= n-1 through n points with distinct x. Newton divided differences.
pub fn interpolate(pts: &[(BigUint, BigUint)], p: &BigUint) -> Vec<BigUint> {
    let n = pts.len();
    // divided differences
    let mut dd: Vec<BigUint> = pts.iter().map(|(_, y)| y.clone()).collect();
    for k in 1..n {
        for i in (k..n).rev() {
            let num = sub(&dd[i], &dd[i - 1], p);
            let den = sub(&pts[i].0, &pts[i - k].0, p);
            dd[i] = num * inv(&den, p) % p;
        }
    }
    // expand Newton form to monomial coefficients
    let mut coeffs: Vec<BigUint> = vec![BigUint::zero(); n];
    let mut basis: Vec<BigUint> = vec![BigUint::one()]; // prod (x - x_j)
    for k in 0..n {
        for (i, b) in basis.iter().enumerate() {
            coeffs[i] = (&coeffs[i] + &dd[k] * b) % p;
        }
        // basis *= (x - x_k)
        let mut nb = vec![BigUint::zero(); basis.len() + 1];
        let negx = sub(&BigUint::zero(), &pts[k].0, p);
        for (i, b) in basis.iter().enumerate() {
            nb[i] = (&nb[i] + b * &negx) % p;
            nb[i + 1] = (&nb[i + 1] + b) % p;
        }
        basis = nb;
    }
    coeffs
}

pub fn degree(coeffs: &[BigUint]) -> Option<usize> {
    coeffs.iter().rposition(|c| !c.is_zero())
}
