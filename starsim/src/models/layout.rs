//! Independent parser of the documented wire layouts (shares no code with
//! adss / sta-rs / star-sharks):
//!   adss share : threshold u32 LE | len,S | len,C | len,D | J[64]   (J is exactly the rest)
//!   S          : x | y_1 .. y_k, 24-byte LE elements < p; a trailing partial element is ignored
//!   report     : len,ciphertext | len,share | len,tag            (bytes after the tag are ignored)
use super::shamir_big;
use num_bigint::BigUint;

#[derive(Clone, Debug, PartialEq, Eq)]
pub struct PShare {
    pub threshold: u32,
    pub x: BigUint,
    pub ys: Vec<BigUint>,
    pub c: Vec<u8>,
    pub d: Vec<u8>,
    pub j: Vec<u8>,
    /// byte offsets within the share encoding: (S start, S len, C start, C len, D start, D len, J start)
    pub offs: [usize; 7],
}

#[derive(Clone, Debug, PartialEq, Eq)]
pub struct PReport {
    pub ct: Vec<u8>,
    pub share: PShare,
    pub share_off: usize,
    pub share_len: usize,
    pub tag: Vec<u8>,
}

fn chunk(b: &[u8], at: usize) -> Option<(usize, usize)> {
    // returns (start, len) of the chunk body whose 4-byte header is at `at`
    if b.len() < at || b.len() - at < 4 {
        return None;
    }
    let len = u32::from_le_bytes([b[at], b[at + 1], b[at + 2], b[at + 3]]) as usize;
    let start = at + 4;
    if b.len() - start < len {
        return None;
    }
    Some((start, len))
}

pub fn parse_s(s: &[u8]) -> Option<(BigUint, Vec<BigUint>)> {
    if s.len() < 24 {
        return None;
    }
    let p = shamir_big::p();
    let x = BigUint::from_bytes_le(&s[..24]);
    if x >= p {
        return None;
    }
    let mut ys = Vec::new();
    let n = (s.len() - 24) / 24;
    for i in 0..n {
        let y = BigUint::from_bytes_le(&s[24 + 24 * i..48 + 24 * i]);
        if y >= p {
            return None;
        }
        ys.push(y);
    }
    Some((x, ys))
}

pub fn parse_share(b: &[u8]) -> Option<PShare> {
    if b.len() < 4 {
        return None;
    }
    let threshold = u32::from_le_bytes([b[0], b[1], b[2], b[3]]);
    let (s0, sl) = chunk(b, 4)?;
    let (c0, cl) = chunk(b, s0 + sl)?;
    let (d0, dl) = chunk(b, c0 + cl)?;
    let j0 = d0 + dl;
    if b.len() - j0 != 64 {
        return None;
    }
    let (x, ys) = parse_s(&b[s0..s0 + sl])?;
    Some(PShare {
        threshold,
        x,
        ys,
        c: b[c0..c0 + cl].to_vec(),
        d: b[d0..d0 + dl].to_vec(),
        j: b[j0..].to_vec(),
        offs: [s0, sl, c0, cl, d0, dl, j0],
    })
}

/// The genuine share, at point `x`, of the sharing that the t shares in `base` (distinct points) belong to:
/// every y is the big-integer evaluation of the polynomial through `base`; threshold, C, D, J are the sharing's.
/// Whoever holds t shares can compute it; a client may also simply have drawn that point.
pub fn genuine_share_at(base: &[PShare], x: &BigUint) -> PShare {
    let p = shamir_big::p();
    let k = base[0].ys.len();
    let ys: Vec<BigUint> = (0..k)
        .map(|j| {
            let pts: Vec<(BigUint, BigUint)> = base.iter().map(|s| (s.x.clone(), s.ys[j].clone())).collect();
            shamir_big::eval(&shamir_big::interpolate(&pts, &p), x, &p)
        })
        .collect();
    PShare { x: x.clone(), ys, ..base[0].clone() }
}

pub fn encode_s(x: &BigUint, ys: &[BigUint]) -> Vec<u8> {
    let mut out = Vec::new();
    out.extend_from_slice(&shamir_big::to_le24(x));
    for y in ys {
        out.extend_from_slice(&shamir_big::to_le24(y));
    }
    out
}

fn put(out: &mut Vec<u8>, b: &[u8]) {
    out.extend_from_slice(&(b.len() as u32).to_le_bytes());
    out.extend_from_slice(b);
}

pub fn encode_share(s: &PShare) -> Vec<u8> {
    let mut out = Vec::new();
    out.extend_from_slice(&s.threshold.to_le_bytes());
    put(&mut out, &encode_s(&s.x, &s.ys));
    put(&mut out, &s.c);
    put(&mut out, &s.d);
    out.extend_from_slice(&s.j);
    out
}

pub fn parse_report(b: &[u8]) -> Option<PReport> {
    let (c0, cl) = chunk(b, 0)?;
    let (s0, sl) = chunk(b, c0 + cl)?;
    let share = parse_share(&b[s0..s0 + sl])?;
    let (t0, tl) = chunk(b, s0 + sl)?;
    Some(PReport { ct: b[c0..c0 + cl].to_vec(), share, share_off: s0, share_len: sl, tag: b[t0..t0 + tl].to_vec() })
}

pub fn encode_report(r: &PReport) -> Vec<u8> {
    let mut out = Vec::new();
    put(&mut out, &r.ct);
    put(&mut out, &encode_share(&r.share));
    put(&mut out, &r.tag);
    out
}

/// Field map of an honest share encoding, for field-targeted faults.
pub fn share_fields(b: &[u8], base: usize) -> crate::faults::Layout {
    let mut l = crate::faults::Layout::default();
    if let Some(s) = parse_share(b) {
        let [s0, sl, c0, cl, d0, dl, j0] = s.offs;
        l.len_fields = vec![base, base + 4, base + s0 + sl, base + c0 + cl];
        l.fields = vec![
            ("threshold", base, base + 4),
            ("S.len", base + 4, base + 8),
            ("S.x", base + s0, base + s0 + 24.min(sl)),
            ("S.y", base + s0 + 24.min(sl), base + s0 + sl),
            ("C.len", base + s0 + sl, base + c0),
            ("C", base + c0, base + c0 + cl),
            ("D.len", base + c0 + cl, base + d0),
            ("D", base + d0, base + d0 + dl),
            ("J", base + j0, base + j0 + 64),
        ];
        l.fields.retain(|f| f.2 > f.1);
    }
    l
}

pub fn report_fields(b: &[u8]) -> crate::faults::Layout {
    let mut l = crate::faults::Layout::default();
    if let Some(r) = parse_report(b) {
        let inner = share_fields(&b[r.share_off..r.share_off + r.share_len], r.share_off);
        l.len_fields = vec![0, r.share_off - 4, r.share_off + r.share_len];
        l.len_fields.extend(inner.len_fields);
        l.fields = vec![("ct.len", 0, 4), ("ct", 4, 4 + r.ct.len()), ("share.len", r.share_off - 4, r.share_off)];
        l.fields.extend(inner.fields);
        let t0 = r.share_off + r.share_len;
        l.fields.push(("tag.len", t0, t0 + 4));
        l.fields.push(("tag", t0 + 4, t0 + 4 + r.tag.len()));
        l.fields.retain(|f| f.2 > f.1);
    }
    l
}
