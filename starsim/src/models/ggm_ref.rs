//! Independent re-implementation of the pieces of the PPOPRF that the oracles
//! need: a serde mirror of the exported key state, the GGM descent (Strobe
//! PRG), hash-to-group and the finalisation hash. Shares no code with ppoprf.
use bitvec::prelude::*;
use curve25519_dalek::ristretto::RistrettoPoint;
use curve25519_dalek::scalar::Scalar;
use ppoprf::ppoprf::ServerPublicKey;
use serde::{Deserialize, Serialize};
use strobe_rs::{SecParam, Strobe};

#[derive(Clone, Serialize, Deserialize, PartialEq, Eq, Debug)]
pub struct MPrefix {
    pub bits: BitVec<usize, Lsb0>,
}
#[derive(Clone, Serialize, Deserialize, PartialEq, Eq, Debug)]
pub struct MPrg {
    pub key: [u8; 32],
}
#[derive(Clone, Serialize, Deserialize, PartialEq, Eq, Debug)]
pub struct MGgmKey {
    pub prgs: Vec<MPrg>,
    pub prefixes: Vec<(MPrefix, Vec<u8>)>,
    pub punctured: Vec<MPrefix>,
}
#[derive(Clone, Serialize, Deserialize)]
pub struct MState {
    pub oprf_key: Scalar,
    pub public_key: ServerPublicKey,
    pub ggm_key: MGgmKey,
}

pub fn parse_state(b: &[u8]) -> Result<MState, String> {
    bincode::deserialize(b).map_err(|e| e.to_string())
}
pub fn encode_state(s: &MState) -> Vec<u8> {
    bincode::serialize(s).expect("mirror serialises")
}

/// bit i of the GGM input for tag x (LSB first, as BitVec::<u8, Lsb0>::from_slice(&[x]))
pub fn bits_of(x: u8) -> Vec<bool> {
    (0..8).map(|i| (x >> i) & 1 == 1).collect()
}

fn strobe_rng_fill(mut s: Strobe, out: &mut [u8]) {
    // StrobeRng::fill_bytes: meta_ad(len as u32 LE) then prf
    let len = (out.len() as u32).to_le_bytes();
    s.meta_ad(&len, false);
    s.prf(out, false);
}

fn prg(key: &[u8; 32], input: &[u8]) -> [u8; 32] {
    let mut t = Strobe::new(b"ggm eval (ppoprf)", SecParam::B128);
    t.key(key, false);
    t.ad(input, false);
    let mut out = [0u8; 32];
    strobe_rng_fill(t, &mut out);
    out
}

/// GGM evaluation of tag `x` from the exported seeds only. None when no
/// retained prefix covers x (i.e. the material cannot evaluate it).
pub fn ggm_eval(k: &MGgmKey, x: u8) -> Option<[u8; 32]> {
    let bits = bits_of(x);
    for (pfx, seed) in &k.prefixes {
        let pb: Vec<bool> = pfx.bits.iter().map(|b| *b).collect();
        if pb.len() <= 8 && bits[..pb.len()] == pb[..] {
            if seed.len() != 32 || k.prgs.len() != 2 {
                return None;
            }
            let mut cur = [0u8; 32];
            cur.copy_from_slice(seed);
            for &b in &bits[pb.len()..] {
                cur = prg(&k.prgs[b as usize].key, &cur);
            }
            return Some(cur);
        }
    }
    None
}

pub fn strobe_hash64(input: &[u8], label: &str) -> [u8; 64] {
    let mut t = Strobe::new(label.as_bytes(), SecParam::B128);
    t.key(input, false);
    let mut out = [0u8; 64];
    strobe_rng_fill(t, &mut out);
    out
}

pub fn hash_to_group(input: &[u8]) -> RistrettoPoint {
    RistrettoPoint::from_uniform_bytes(&strobe_hash64(input, "ppoprf_derive_client_input"))
}

pub fn finalize(input: &[u8], md: u8, unblinded: &[u8; 32]) -> [u8; 32] {
    let mut h = Vec::new();
    h.extend_from_slice(input);
    h.push(md);
    h.extend_from_slice(unblinded);
    let o = strobe_hash64(&h, "ppoprf_finalize");
    let mut out = [0u8; 32];
    out.copy_from_slice(&o[..32]);
    out
}

/// The evaluation the exported state implies for (tag, point): (k + PRF(tag))^-1 * P
pub fn reference_eval(st: &MState, md: u8, p: &RistrettoPoint) -> Option<[u8; 32]> {
    let tag = ggm_eval(&st.ggm_key, md)?;
    let ts = Scalar::from_bytes_mod_order(tag);
    let e = (st.oprf_key + ts).invert() * p;
    Some(e.compress().to_bytes())
}
