pub mod layout;
pub mod shamir_big;
