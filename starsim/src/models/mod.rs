pub mod layout;
pub mod shamir_big;
pub mod ggm_ref;
