//! Discrete-event kernel: simulated clock, event queue, event log + digest,
//! fault counters and probes. World-specific event payloads are generic.
use crate::choices::{Choices, Digest};
use std::cmp::Reverse;
use std::collections::{BTreeMap, BTreeSet, BinaryHeap};

pub type NodeId = u32;

#[derive(Clone, Debug)]
pub struct Violation {
    pub invariant: String,
    /// stable class of the failure, used for known-finding matching and for
    /// "same violation" during shrinking
    pub signature: String,
    pub detail: String,
    pub step: u64,
}
impl Violation {
    pub fn new(invariant: &str, signature: impl Into<String>, detail: impl Into<String>) -> Self {
        Violation { invariant: invariant.to_string(), signature: signature.into(), detail: detail.into(), step: 0 }
    }
}

#[derive(Default, Clone)]
pub struct Stats {
    pub faults: BTreeMap<&'static str, u64>,
    pub probes: BTreeMap<&'static str, u64>,
    pub states: BTreeSet<u64>,
    pub sim_time_us: u64,
    pub events: u64,
    pub os_draw_bytes: u64,
    pub nontrivial: bool,
}
impl Stats {
    pub fn fault(&mut self, k: &'static str) {
        *self.faults.entry(k).or_insert(0) += 1;
    }
    pub fn probe(&mut self, k: &'static str) {
        *self.probes.entry(k).or_insert(0) += 1;
    }
    pub fn probe_n(&mut self, k: &'static str, n: u64) {
        *self.probes.entry(k).or_insert(0) += n;
    }
    pub fn state(&mut self, h: u64) {
        if self.states.len() < 4096 {
            self.states.insert(h);
        }
    }
    pub fn merge(&mut self, o: &Stats) {
        for (k, v) in &o.faults {
            *self.faults.entry(k).or_insert(0) += v;
        }
        for (k, v) in &o.probes {
            *self.probes.entry(k).or_insert(0) += v;
        }
        self.sim_time_us += o.sim_time_us;
        self.events += o.events;
        self.os_draw_bytes += o.os_draw_bytes;
    }
}

pub struct Log {
    pub digest: Digest,
    pub trace: Vec<String>,
    pub trace_on: bool,
    pub n: u64,
}
impl Log {
    pub fn new(trace_on: bool) -> Self {
        Log { digest: Digest::default(), trace: Vec::new(), trace_on, n: 0 }
    }
    /// Record one event. Never draws, never reads a real clock.
    pub fn ev(&mut self, s: &str) {
        self.n += 1;
        self.digest.str(s);
        if self.trace_on && self.trace.len() < 4000 {
            self.trace.push(s.to_string());
        }
    }
    pub fn wire(&mut self, b: &[u8]) {
        self.digest.bytes(b);
    }
}

pub struct Sim<T> {
    pub now: u64,
    seq: u64,
    heap: BinaryHeap<Reverse<(u64, u64)>>,
    payload: BTreeMap<u64, T>,
    pub steps: u64,
    pub step_cap: u64,
}
impl<T> Sim<T> {
    pub fn new(step_cap: u64) -> Self {
        Sim { now: 0, seq: 0, heap: BinaryHeap::new(), payload: BTreeMap::new(), steps: 0, step_cap }
    }
    pub fn after(&mut self, delay_us: u64, ev: T) -> u64 {
        self.seq += 1;
        self.heap.push(Reverse((self.now + delay_us, self.seq)));
        self.payload.insert(self.seq, ev);
        self.seq
    }
    /// Next event in (time, seq) order; jumps the clock. None at quiescence or
    /// when the per-run step cap is reached.
    pub fn pop(&mut self) -> Option<(u64, T)> {
        if self.steps >= self.step_cap {
            return None;
        }
        let Reverse((at, seq)) = self.heap.pop()?;
        self.now = at;
        self.steps += 1;
        let ev = self.payload.remove(&seq).expect("event payload");
        Some((seq, ev))
    }
    pub fn pending(&self) -> usize {
        self.heap.len()
    }
}

/// Everything a run needs besides its world: choices, entropy, log, stats.
pub struct Ctx {
    pub ch: Choices,
    pub os: crate::osrng::OsStreams,
    pub log: Log,
    pub stats: Stats,
    pub thorough: bool,
}
impl Ctx {
    pub fn new(ch: Choices, os_seed: u64, thorough: bool, trace_on: bool) -> Self {
        Ctx { ch, os: crate::osrng::OsStreams::new(os_seed), log: Log::new(trace_on), stats: Stats::default(), thorough }
    }
}

#[macro_export]
macro_rules! ev {
    ($ctx:expr, $($arg:tt)*) => {
        $ctx.log.ev(&format!($($arg)*))
    };
}

// ---------------------------------------------------------------------------
// Transport

#[derive(Clone, Debug)]
pub struct Packet {
    /// (sender, per-sender counter): stable under deletion of other steps
    pub id: (NodeId, u32),
    pub from: NodeId,
    pub to: NodeId,
    pub class: u8,
    pub bytes: Vec<u8>,
    /// names of the faults applied to this copy
    pub faults: Vec<&'static str>,
    pub copy: u8,
}

#[derive(Clone, Debug, Default)]
pub struct NetCfg {
    /// per-mille rates; 0 = kind disabled for this run (consumes no draw)
    pub drop: u64,
    pub dup: u64,
    pub replay: u64,
    pub misdeliver: u64,
    pub corrupt: u64,
    pub min_latency_us: u64,
    pub jitter_us: u64,
    /// extra delay kinds
    pub long_delay: u64,
    pub long_delay_us: u64,
}

pub struct Net {
    pub cfg: NetCfg,
    counters: BTreeMap<NodeId, u32>,
    /// partitioned links (unordered pairs)
    pub cut: BTreeSet<(NodeId, NodeId)>,
}

pub enum Fate {
    Dropped,
    Sent(Vec<(u64, Packet)>),
}

impl Net {
    pub fn new(cfg: NetCfg) -> Self {
        Net { cfg, counters: BTreeMap::new(), cut: BTreeSet::new() }
    }
    pub fn next_id(&mut self, from: NodeId) -> (NodeId, u32) {
        let c = self.counters.entry(from).or_insert(0);
        *c += 1;
        (from, *c)
    }
    pub fn rewind(&mut self, from: NodeId) {
        if let Some(c) = self.counters.get_mut(&from) {
            *c -= 1;
        }
    }
    pub fn is_cut(&self, a: NodeId, b: NodeId) -> bool {
        self.cut.contains(&(a.min(b), a.max(b)))
    }
    /// Decide the fate of one message. Returns the copies to schedule as
    /// (delay, packet). Corruption and misdelivery are left to the caller via
    /// `want_corrupt` / `want_misdeliver` flags in the returned packets'
    /// `faults` (the caller knows the layout and the other recipients).
    pub fn send(
        &mut self,
        ctx: &mut Ctx,
        from: NodeId,
        to: NodeId,
        class: u8,
        bytes: Vec<u8>,
    ) -> Fate {
        let id = self.next_id(from);
        ctx.log.ev(&format!("send {}#{} -> {} class={} len={}", id.0, id.1, to, class, bytes.len()));
        ctx.log.wire(&bytes);
        if self.is_cut(from, to) {
            ctx.stats.fault("partition_drop");
            ctx.log.ev("  fate=partitioned");
            return Fate::Dropped;
        }
        if ctx.ch.chance(self.cfg.drop, 1000) {
            ctx.stats.fault("drop");
            ctx.log.ev("  fate=drop");
            return Fate::Dropped;
        }
        let mut out = Vec::new();
        let mut delay = self.cfg.min_latency_us;
        if self.cfg.jitter_us > 0 {
            let j = ctx.ch.draw(self.cfg.jitter_us + 1);
            if j > 0 {
                ctx.stats.fault("reorder_jitter");
            }
            delay += j;
        }
        if ctx.ch.chance(self.cfg.long_delay, 1000) {
            ctx.stats.fault("delay");
            delay += self.cfg.long_delay_us;
        }
        let mut p = Packet { id, from, to, class, bytes, faults: Vec::new(), copy: 0 };
        if ctx.ch.chance(self.cfg.corrupt, 1000) {
            p.faults.push("corrupt");
        }
        if ctx.ch.chance(self.cfg.misdeliver, 1000) {
            p.faults.push("misdeliver");
        }
        if ctx.ch.chance(self.cfg.dup, 1000) {
            ctx.stats.fault("dup");
            let mut q = p.clone();
            q.copy = 1;
            let d2 = delay + 1 + ctx.ch.draw(self.cfg.jitter_us + 1);
            out.push((d2, q));
        }
        if ctx.ch.chance(self.cfg.replay, 1000) {
            ctx.stats.fault("replay");
            let mut q = p.clone();
            q.copy = 2;
            let d2 = delay + self.cfg.long_delay_us.max(1000) + ctx.ch.draw(self.cfg.long_delay_us.max(1000));
            out.push((d2, q));
        }
        out.push((delay, p));
        ctx.log.ev(&format!("  fate=deliver x{}", out.len()));
        Fate::Sent(out)
    }
}

// ---------------------------------------------------------------------------
// Nodes on their own OS threads

type Job = Box<dyn FnOnce() + Send>;

/// One real OS thread per simulated node, released for exactly one callback at a time: the
/// simulator still decides who runs and when (the caller blocks until the callback has finished),
/// so executions stay exactly repeatable, but state the code under test keeps per THREAD
/// (thread-locals, per-thread generators or caches) is now per NODE, as it is for parties that
/// really are separate processes or threads.
pub struct NodeThreads {
    workers: BTreeMap<NodeId, (std::sync::mpsc::Sender<Job>, Option<std::thread::JoinHandle<()>>)>,
}

impl Default for NodeThreads {
    fn default() -> Self {
        NodeThreads { workers: BTreeMap::new() }
    }
}

impl NodeThreads {
    /// Run `f` on node `node`'s thread with `entropy` answering its OS-entropy draws.
    pub fn run<R: Send + 'static>(&mut self, node: NodeId, entropy: Vec<u8>, f: impl FnOnce() -> R + Send + 'static) -> R {
        let w = self.workers.entry(node).or_insert_with(|| {
            let (tx, rx) = std::sync::mpsc::channel::<Job>();
            let h = std::thread::Builder::new()
                .name(format!("node-{}", node))
                .spawn(move || {
                    crate::runner::set_quiet(true);
                    while let Ok(job) = rx.recv() {
                        job();
                    }
                })
                .expect("spawn node thread");
            (tx, Some(h))
        });
        let (rtx, rrx) = std::sync::mpsc::channel();
        let job: Job = Box::new(move || {
            let buf = entropy;
            let mut pos = 0usize;
            let mut tail = crate::choices::Xoshiro::new(buf.iter().fold(0u64, |a, b| a.wrapping_mul(131).wrapping_add(*b as u64)));
            let _ = getrandom::sim::install(Box::new(move |out: &mut [u8]| {
                for b in out.iter_mut() {
                    if pos < buf.len() {
                        *b = buf[pos];
                        pos += 1;
                    } else {
                        *b = tail.next() as u8;
                    }
                }
            }));
            let r = std::panic::catch_unwind(std::panic::AssertUnwindSafe(f));
            let _ = getrandom::sim::uninstall();
            let loc = if r.is_err() { crate::runner::take_last_panic() } else { None };
            let _ = rtx.send((r, loc));
        });
        w.0.send(job).expect("node thread alive");
        let (r, loc) = rrx.recv().expect("node thread answers");
        match r {
            Ok(v) => v,
            Err(_) => {
                // re-raise on the simulator thread with the original location preserved in the message
                let (l, m) = loc.unwrap_or_else(|| ("?".into(), "?".into()));
                crate::runner::note_foreign_panic(l, m);
                std::panic::resume_unwind(Box::new("panic on a node thread"));
            }
        }
    }
}

impl Drop for NodeThreads {
    fn drop(&mut self) {
        let ws = std::mem::take(&mut self.workers);
        for (_, (tx, h)) in ws {
            drop(tx);
            if let Some(h) = h {
                let _ = h.join();
            }
        }
    }
}
