//! Batch runner, panic capture, minimisation, replay files, evidence.
use crate::choices::{mix, Choices};
use crate::kernel::{Ctx, Stats, Violation};
use serde_json::{json, Value};
use std::cell::RefCell;
use std::collections::{BTreeMap, BTreeSet, HashSet};
use std::panic::{catch_unwind, AssertUnwindSafe};
use std::sync::atomic::{AtomicU64, Ordering};
use std::sync::Mutex;
use std::time::Instant;

pub const DEFAULT_SEED: u64 = 20260927;

/// Directory in which every worker journals the index of the run it is about to execute, so that
/// an ABORT of the process (stack overflow, allocation failure: not catchable) can be attributed.
pub static JOURNAL_DIR: std::sync::OnceLock<String> = std::sync::OnceLock::new();

pub trait Property: Sync + Send {
    fn id(&self) -> &'static str;
    fn level(&self) -> &'static str {
        "exploration"
    }
    fn world(&self) -> &'static str;
    /// how cases are generated and what makes a run non-trivial
    fn rule(&self) -> &'static str;
    fn runs(&self, thorough: bool) -> u64;
    fn wall_cap_s(&self, thorough: bool) -> u64 {
        if thorough { 780 } else { 45 }
    }
    fn run(&self, ctx: &mut Ctx) -> Result<(), Violation>;
    fn real_components(&self) -> Vec<&'static str>;
    fn stub_components(&self) -> Vec<&'static str>;
    fn assumptions(&self) -> Vec<&'static str>;
    /// probes that must be non-zero in a thorough run for the evidence to be
    /// considered healthy (reported, not enforced as violation)
    fn key_probes(&self) -> Vec<&'static str> {
        vec![]
    }
}

// ---------------------------------------------------------------------------
// panic capture

thread_local! {
    static LAST_PANIC: RefCell<Option<(String, String)>> = RefCell::new(None);
    static QUIET: RefCell<bool> = RefCell::new(false);
}

pub fn install_panic_hook() {
    let default = std::panic::take_hook();
    std::panic::set_hook(Box::new(move |info| {
        let loc = info.location().map(|l| format!("{}:{}", l.file(), l.line())).unwrap_or_else(|| "?".into());
        let msg = if let Some(s) = info.payload().downcast_ref::<&str>() {
            s.to_string()
        } else if let Some(s) = info.payload().downcast_ref::<String>() {
            s.clone()
        } else {
            "<non-string panic>".to_string()
        };
        LAST_PANIC.with(|p| *p.borrow_mut() = Some((loc, msg)));
        let quiet = QUIET.with(|q| *q.borrow());
        if !quiet {
            default(info);
        }
    }));
}

/// A panic that happened on a node thread: remembered so that the simulator thread reports its
/// original location (resume_unwind does not run the hook again).
pub fn note_foreign_panic(loc: String, msg: String) {
    LAST_PANIC.with(|p| *p.borrow_mut() = Some((loc, msg)));
}

pub fn set_quiet(q: bool) {
    QUIET.with(|x| *x.borrow_mut() = q);
}

pub fn take_last_panic() -> Option<(String, String)> {
    LAST_PANIC.with(|p| p.borrow_mut().take())
}

/// Run `f` as a *receiver callback*: a panic is caught and returned as
/// (location, message). The getrandom seam is uninstalled by its guard.
pub fn guarded<R>(f: impl FnOnce() -> R) -> Result<R, (String, String)> {
    let _ = take_last_panic();
    match catch_unwind(AssertUnwindSafe(f)) {
        Ok(r) => Ok(r),
        Err(_) => {
            let _ = getrandom::sim::uninstall();
            Err(take_last_panic().unwrap_or_else(|| ("?".into(), "?".into())))
        }
    }
}

/// strip line numbers' volatility a little: keep file and line (signature of a
/// panic site); paths under /repo are made relative.
pub fn norm_loc(loc: &str) -> String {
    // path dependencies are reached through starsim/repo, the staged copy of /repo (or of a snapshot)
    match loc.find("repo/") {
        Some(i) if loc[..i].chars().all(|c| c == '/' || c == '.' ) || loc[..i].ends_with("starsim/") || i == 0 => loc[i + 5..].to_string(),
        _ => loc.trim_start_matches("/repo/").to_string(),
    }
}

// ---------------------------------------------------------------------------

pub struct RunOutcome {
    pub violation: Option<Violation>,
    pub harness_error: Option<String>,
    pub digest: u64,
    pub stats: Stats,
    pub trace: Vec<String>,
    pub choices: Vec<u64>,
    pub exhausted: u64,
}

pub fn execute(prop: &dyn Property, ch: Choices, os_seed: u64, thorough: bool, trace_on: bool) -> RunOutcome {
    QUIET.with(|q| *q.borrow_mut() = true);
    let mut ctx = Ctx::new(ch, os_seed, thorough, trace_on);
    let _ = take_last_panic();
    let (calls0, bytes0) = getrandom::sim::draws();
    let res = catch_unwind(AssertUnwindSafe(|| prop.run(&mut ctx)));
    let _ = getrandom::sim::uninstall();
    let mut violation = None;
    let mut harness_error = None;
    match res {
        Ok(Ok(())) => {}
        Ok(Err(mut v)) => {
            v.step = ctx.log.n;
            violation = Some(v);
        }
        Err(_) => {
            let (loc, msg) = take_last_panic().unwrap_or_else(|| ("?".into(), "?".into()));
            if loc.starts_with("src/") {
                harness_error = Some(format!("harness panic at {}: {}", loc, msg));
            } else {
                let mut v = Violation::new(
                    &format!("{}.panic", prop.id().to_lowercase()),
                    format!("panic@{}", norm_loc(&loc)),
                    format!("library code panicked in an honest (non-receiver) path at {}: {}", loc, msg),
                );
                v.step = ctx.log.n;
                violation = Some(v);
            }
        }
    }
    let (calls1, bytes1) = getrandom::sim::draws();
    // the digest covers how much OS entropy the run consumed (calls and bytes)
    ctx.log.digest.u64(calls1 - calls0);
    ctx.log.digest.u64(bytes1 - bytes0);
    ctx.stats.os_draw_bytes = bytes1 - bytes0;
    ctx.stats.events = ctx.log.n;
    let exhausted = ctx.ch.exhausted;
    RunOutcome {
        violation,
        harness_error,
        digest: ctx.log.digest.0,
        stats: ctx.stats,
        trace: ctx.log.trace,
        choices: ctx.ch.into_recorded(),
        exhausted,
    }
}

pub fn run_seed(prop: &dyn Property, base_seed: u64, i: u64) -> (u64, u64) {
    let mut h = 0u64;
    for b in prop.id().bytes() {
        h = h.wrapping_mul(131).wrapping_add(b as u64);
    }
    let s = mix(mix(base_seed, h), i);
    (s, mix(s, 0x05EE_D05E_ED))
}

// ---------------------------------------------------------------------------
// known findings

#[derive(Clone, Debug)]
pub struct Known {
    pub status: String,
    pub property: String,
    pub invariant: String,
    pub signature: String,
    pub what: String,
}

pub fn load_known(verif_dir: &str) -> Result<Vec<Known>, String> {
    let path = format!("{}/known_findings.json", verif_dir);
    let txt = match std::fs::read_to_string(&path) {
        Ok(t) => t,
        Err(_) => return Ok(vec![]),
    };
    let v: Value = serde_json::from_str(&txt).map_err(|e| format!("{}: {}", path, e))?;
    let mut out = Vec::new();
    for e in v["findings"].as_array().cloned().unwrap_or_default() {
        out.push(Known {
            status: e["status"].as_str().unwrap_or("").to_string(),
            property: e["property"].as_str().unwrap_or("").to_string(),
            invariant: e["invariant"].as_str().unwrap_or("").to_string(),
            signature: e["signature"].as_str().unwrap_or("").to_string(),
            what: e["what"].as_str().unwrap_or("").to_string(),
        });
    }
    Ok(out)
}

fn is_known(known: &[Known], prop: &str, v: &Violation) -> Option<Known> {
    known
        .iter()
        .find(|k| k.status == "known" && k.property == prop && k.invariant == v.invariant && k.signature == v.signature)
        .cloned()
}

// ---------------------------------------------------------------------------
// batch

pub struct BatchResult {
    pub evaluations: u64,
    pub distinct_nontrivial: u64,
    pub states: u64,
    pub stats: Stats,
    pub wall_s: f64,
    pub violations: Vec<(u64, Violation)>,
    pub known_seen: BTreeMap<String, (u64, Known)>,
    pub harness_errors: Vec<String>,
    pub nontrivial_idx: Vec<u64>,
    pub max_events: u64,
    /// runs re-executed a second time in the same process / how many produced another digest
    pub reexec_sampled: u64,
    pub reexec_mismatch: u64,
}

pub fn run_batch(
    prop: &dyn Property,
    thorough: bool,
    base_seed: u64,
    nruns: u64,
    workers: usize,
    known: &[Known],
    wall_cap_s: u64,
) -> BatchResult {
    let next = AtomicU64::new(0);
    let stop_after = AtomicU64::new(u64::MAX);
    let start = Instant::now();
    struct Shared {
        digests: HashSet<u64>,
        states: BTreeSet<u64>,
        stats: Stats,
        evaluations: u64,
        violations: Vec<(u64, Violation)>,
        known_seen: BTreeMap<String, (u64, Known)>,
        harness_errors: Vec<String>,
        nontrivial_idx: Vec<u64>,
        max_events: u64,
        reexec_sampled: u64,
        reexec_mismatch: u64,
    }
    let shared = Mutex::new(Shared {
        digests: HashSet::new(),
        states: BTreeSet::new(),
        stats: Stats::default(),
        evaluations: 0,
        violations: Vec::new(),
        known_seen: BTreeMap::new(),
        harness_errors: Vec::new(),
        nontrivial_idx: Vec::new(),
        max_events: 0,
        reexec_sampled: 0,
        reexec_mismatch: 0,
    });
    std::thread::scope(|sc| {
        for wk in 0..workers.max(1) {
            let next = &next;
            let stop_after = &stop_after;
            let shared = &shared;
            sc.spawn(move || {
                let journal = JOURNAL_DIR.get().map(|d| format!("{}/worker-{}", d, wk));
                let mut local_stats = Stats::default();
                let mut local_digests: Vec<u64> = Vec::new();
                let mut local_states: BTreeSet<u64> = BTreeSet::new();
                let mut local_eval = 0u64;
                let mut local_nontrivial: Vec<u64> = Vec::new();
                let mut local_max_events = 0u64;
                loop {
                    let i = next.fetch_add(1, Ordering::Relaxed);
                    if i >= nruns || i > stop_after.load(Ordering::Relaxed) {
                        break;
                    }
                    if start.elapsed().as_secs() >= wall_cap_s {
                        break;
                    }
                    let (seed, os_seed) = run_seed(prop, base_seed, i);
                    if let Some(j) = &journal {
                        let _ = std::fs::write(j, format!("{}\n", i));
                    }
                    let out = execute(prop, Choices::generate(seed), os_seed, thorough, false);
                    if i % 97 == 3 && out.violation.is_none() && out.harness_error.is_none() {
                        // the same seed again in the same process: one seed must be one execution.
                        // A different digest means hidden state (caches, pools, thread-locals) in the
                        // code under test or in the harness; reported as a note, not as a violation.
                        let again = execute(prop, Choices::generate(seed), os_seed, thorough, false);
                        let mut sh = shared.lock().unwrap();
                        sh.reexec_sampled += 1;
                        if again.digest != out.digest {
                            sh.reexec_mismatch += 1;
                        }
                    }
                    local_eval += 1;
                    local_max_events = local_max_events.max(out.stats.events);
                    local_stats.merge(&out.stats);
                    if out.stats.nontrivial {
                        local_digests.push(out.digest);
                        if local_nontrivial.len() < 4 {
                            local_nontrivial.push(i);
                        }
                    }
                    local_states.extend(out.stats.states.iter().copied());
                    if let Some(e) = out.harness_error {
                        let mut sh = shared.lock().unwrap();
                        if sh.harness_errors.len() < 5 {
                            sh.harness_errors.push(format!("run {} seed {}: {}", i, seed, e));
                        }
                        stop_after.fetch_min(i, Ordering::Relaxed);
                    }
                    if let Some(v) = out.violation {
                        let mut sh = shared.lock().unwrap();
                        if let Some(k) = is_known(known, prop.id(), &v) {
                            let key = format!("{}|{}", v.invariant, v.signature);
                            let e = sh.known_seen.entry(key).or_insert((0, k));
                            e.0 += 1;
                        } else {
                            sh.violations.push((i, v));
                            stop_after.fetch_min(i, Ordering::Relaxed);
                        }
                    }
                }
                let mut sh = shared.lock().unwrap();
                sh.stats.merge(&local_stats);
                sh.digests.extend(local_digests);
                sh.states.extend(local_states);
                sh.evaluations += local_eval;
                sh.nontrivial_idx.extend(local_nontrivial);
                sh.max_events = sh.max_events.max(local_max_events);
            });
        }
    });
    let mut sh = shared.into_inner().unwrap();
    sh.violations.sort_by_key(|(i, _)| *i);
    sh.nontrivial_idx.sort();
    BatchResult {
        evaluations: sh.evaluations,
        distinct_nontrivial: sh.digests.len() as u64,
        states: sh.states.len() as u64,
        stats: sh.stats,
        wall_s: start.elapsed().as_secs_f64(),
        violations: sh.violations,
        known_seen: sh.known_seen,
        harness_errors: sh.harness_errors,
        nontrivial_idx: sh.nontrivial_idx,
        max_events: sh.max_events,
        reexec_sampled: sh.reexec_sampled,
        reexec_mismatch: sh.reexec_mismatch,
    }
}

// ---------------------------------------------------------------------------
// minimisation of the recorded choice vector

fn same_violation(a: &Violation, b: &Violation) -> bool {
    a.invariant == b.invariant && a.signature == b.signature
}

pub fn shrink(
    prop: &dyn Property,
    choices: Vec<u64>,
    os_seed: u64,
    thorough: bool,
    target: &Violation,
    budget_runs: u64,
    budget_s: u64,
) -> (Vec<u64>, u64) {
    let start = Instant::now();
    let mut runs = 0u64;
    fn strip(mut v: Vec<u64>) -> Vec<u64> {
        // trailing zeros are what an exhausted replay vector yields anyway
        while v.last() == Some(&0) {
            v.pop();
        }
        v
    }
    fn smaller(a: &[u64], b: &[u64]) -> bool {
        // shortlex
        a.len() < b.len() || (a.len() == b.len() && a < b)
    }
    let mut best = strip(choices);
    let mut try_candidate = |cand: &Vec<u64>, runs: &mut u64| -> Option<Vec<u64>> {
        *runs += 1;
        let out = execute(prop, Choices::replay(cand.clone()), os_seed, thorough, false);
        match (&out.violation, &out.harness_error) {
            (Some(v), None) if same_violation(v, target) => Some(strip(out.choices)),
            _ => None,
        }
    };
    // normalise: the recorded vector of the replay (cuts everything after the violation)
    if let Some(c) = try_candidate(&best, &mut runs) {
        if smaller(&c, &best) {
            best = c;
        }
    }
    let over = |runs: u64| runs >= budget_runs || start.elapsed().as_secs() >= budget_s;
    let mut improved = true;
    while improved && !over(runs) {
        improved = false;
        // 1. delete chunks
        let mut size = (best.len() / 2).max(1);
        loop {
            let mut i = 0;
            while i < best.len() && !over(runs) {
                let mut cand = best.clone();
                let end = (i + size).min(cand.len());
                cand.drain(i..end);
                if let Some(c) = try_candidate(&cand, &mut runs) {
                    if smaller(&c, &best) {
                        best = c;
                        improved = true;
                        continue;
                    }
                }
                i += size;
            }
            if size == 1 || over(runs) {
                break;
            }
            size /= 2;
        }
        // 2. zero chunks
        let mut size = (best.len() / 2).max(1);
        loop {
            let mut i = 0;
            while i < best.len() && !over(runs) {
                let end = (i + size).min(best.len());
                if best[i..end].iter().any(|x| *x != 0) {
                    let mut cand = best.clone();
                    for x in &mut cand[i..end] {
                        *x = 0;
                    }
                    if let Some(c) = try_candidate(&cand, &mut runs) {
                        if smaller(&c, &best) {
                            best = c;
                            improved = true;
                        }
                    }
                }
                i += size;
            }
            if size == 1 || over(runs) {
                break;
            }
            size /= 2;
        }
        // 3. reduce individual values (halve, decrement)
        let mut i = 0;
        while i < best.len() && !over(runs) {
            let v = best[i];
            if v > 0 {
                for nv in [v / 2, v - 1] {
                    if nv >= v {
                        continue;
                    }
                    let mut cand = best.clone();
                    cand[i] = nv;
                    if let Some(c) = try_candidate(&cand, &mut runs) {
                        if smaller(&c, &best) {
                            best = c;
                            improved = true;
                            break;
                        }
                    }
                }
            }
            i += 1;
        }
    }
    (best, runs)
}

// ---------------------------------------------------------------------------
// replay files

pub fn repo_head() -> String {
    std::process::Command::new("git")
        .args(["-C", &std::env::var("STARSIM_REPO").unwrap_or_else(|_| "/repo".to_string()), "rev-parse", "--short", "HEAD"])
        .output()
        .ok()
        .map(|o| String::from_utf8_lossy(&o.stdout).trim().to_string())
        .unwrap_or_default()
}

pub fn write_replay(
    path: &str,
    prop: &dyn Property,
    thorough: bool,
    seed: u64,
    os_seed: u64,
    run_index: u64,
    original_len: usize,
    shrink_runs: u64,
    out: &RunOutcome,
) -> std::io::Result<()> {
    let v = out.violation.as_ref().unwrap();
    let j = json!({
        "format": "starsim-replay-1",
        "property": prop.id(),
        "world": prop.world(),
        "tier": if thorough { "thorough" } else { "quick" },
        "seed": seed.to_string(),
        "os_seed": os_seed.to_string(),
        "run_index": run_index,
        "choices": out.choices,
        "original_choices_len": original_len,
        "shrink_reexecutions": shrink_runs,
        "violation": { "invariant": v.invariant, "signature": v.signature, "detail": v.detail, "step": v.step },
        "digest": format!("{:016x}", out.digest),
        "faults_fired": out.stats.faults.iter().map(|(k, v)| (k.to_string(), json!(v))).collect::<serde_json::Map<_, _>>(),
        "trace": out.trace,
        "repo_head": repo_head(),
    });
    if let Some(dir) = std::path::Path::new(path).parent() {
        std::fs::create_dir_all(dir)?;
    }
    std::fs::write(path, serde_json::to_string_pretty(&j).unwrap())
}

pub struct ReplayFile {
    /// Some(n): sequence mode - runs 0..=n of the batch with base seed `base_seed`, one after another
    pub sequence_upto: Option<u64>,
    pub base_seed: u64,
    /// Some(seed): generate mode from the run seed (used for runs that abort the process)
    pub gen_seed: Option<u64>,
    pub property: String,
    pub thorough: bool,
    pub os_seed: u64,
    pub choices: Vec<u64>,
    pub invariant: String,
    pub signature: String,
    pub digest: String,
}

pub fn read_replay(path: &str) -> Result<ReplayFile, String> {
    let txt = std::fs::read_to_string(path).map_err(|e| format!("{}: {}", path, e))?;
    let v: Value = serde_json::from_str(&txt).map_err(|e| format!("{}: {}", path, e))?;
    if v["format"] != "starsim-replay-1" {
        return Err("not a starsim replay file".into());
    }
    Ok(ReplayFile {
        sequence_upto: v["sequence_upto"].as_u64(),
        base_seed: v["seed"].as_str().and_then(|s| s.parse().ok()).unwrap_or(DEFAULT_SEED),
        gen_seed: if v["choices"].is_null() { v["seed"].as_str().and_then(|s| s.parse().ok()) } else { None },
        property: v["property"].as_str().unwrap_or("").to_string(),
        thorough: v["tier"] == "thorough",
        os_seed: v["os_seed"].as_str().unwrap_or("0").parse().map_err(|_| "os_seed")?,
        choices: v["choices"].as_array().map(|a| a.iter().map(|x| x.as_u64().unwrap_or(0)).collect()).unwrap_or_default(),
        invariant: v["violation"]["invariant"].as_str().unwrap_or("").to_string(),
        signature: v["violation"]["signature"].as_str().unwrap_or("").to_string(),
        digest: v["digest"].as_str().unwrap_or("").to_string(),
    })
}

// ---------------------------------------------------------------------------
// evidence

#[allow(clippy::too_many_arguments)]
pub fn write_evidence(
    verif_dir: &str,
    prop: &dyn Property,
    thorough: bool,
    base_seed: u64,
    workers: usize,
    br: &BatchResult,
    samples: Vec<Value>,
    n_violations: usize,
    violation_notes: Vec<Value>,
) -> std::io::Result<()> {
    let runs_per_hour = if br.wall_s > 0.0 { (br.evaluations as f64 / br.wall_s * 3600.0) as u64 } else { 0 };
    let probes: serde_json::Map<String, Value> = br.stats.probes.iter().map(|(k, v)| (k.to_string(), json!(v))).collect();
    let faults: serde_json::Map<String, Value> = br.stats.faults.iter().map(|(k, v)| (k.to_string(), json!(v))).collect();
    let zero_probes: Vec<&str> = prop.key_probes().into_iter().filter(|k| br.stats.probes.get(k).copied().unwrap_or(0) == 0).collect();
    let known: Vec<Value> = br
        .known_seen
        .iter()
        .map(|(k, (n, kn))| json!({"key": k, "runs": n, "what": kn.what}))
        .collect();
    let j = json!({
        "property_id": prop.id(),
        "tier": if thorough { "thorough" } else { "quick" },
        "seed": base_seed,
        "level": prop.level(),
        "wall_s": (br.wall_s * 1000.0).round() / 1000.0,
        "violations": n_violations,
        "coverage": {
            "evaluations": br.evaluations,
            "distinct_nontrivial": br.distinct_nontrivial,
            "rule": prop.rule(),
            "samples": samples,
            "technique": "deterministic simulation with fault injection: seeded search over schedules, fault sequences and entropy streams",
            "world": prop.world(),
            "workers": workers,
            "runs_per_hour": runs_per_hour,
            "seeds_per_hour": runs_per_hour,
            "simulated_time_s": br.stats.sim_time_us as f64 / 1e6,
            "simulated_events": br.stats.events,
            "max_events_in_one_run": br.max_events,
            "os_entropy_bytes_served_by_seam": br.stats.os_draw_bytes,
            "faults_fired": faults,
            "probes": probes,
            "key_probes_stuck_at_zero": zero_probes,
            "states_reached": br.states,
            "same_seed_reexecuted_in_process": {"sampled": br.reexec_sampled, "digest_mismatches": br.reexec_mismatch},
            "states_measure": "per-property abstraction, see rule",
            "components": { "real": prop.real_components(), "stub": prop.stub_components() },
            "known_findings_seen": known,
            "violation_notes": violation_notes,
            "exhaustive": false,
            "repo_head": repo_head(),
        },
        "assumptions": prop.assumptions(),
    });
    let dir = format!("{}/evidence", verif_dir);
    std::fs::create_dir_all(&dir)?;
    std::fs::write(format!("{}/{}.json", dir, prop.id()), serde_json::to_string_pretty(&j).unwrap())
}
