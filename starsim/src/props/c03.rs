//! C03 — associated data stays confidential below threshold (DESIGN.md §4 C03).
//! Wire observer over single reports and over pairs of reports of one group.
use crate::kernel::{Ctx, NetCfg, Violation};
use crate::models::layout;
use crate::runner::Property;
use crate::worlds::a::{AOracle, GenCfg, Sent, WorldA};
use sta_rs::{derive_ske_key, Ciphertext};
use std::collections::BTreeMap;

pub struct C03;

/// Strobe-128 rate: one duplex block of the cipher
pub const BLOCK: usize = 166;

#[derive(Default)]
struct Oracle {
    /// group -> (sent id, ciphertext, payload) of earlier reports
    seen: BTreeMap<usize, Vec<((u32, u32), Vec<u8>, Vec<u8>)>>,
    /// a violation matching the documented known finding is held back so that
    /// every other check of the run still executes; it is returned at the end
    /// of the run if nothing else fired
    held: Option<Violation>,
}

pub fn payload(m: &[u8], aux: &Option<Vec<u8>>) -> Vec<u8> {
    let mut p = Vec::new();
    p.extend_from_slice(&(m.len() as u32).to_le_bytes());
    p.extend_from_slice(m);
    if let Some(a) = aux {
        p.extend_from_slice(&(a.len() as u32).to_le_bytes());
        p.extend_from_slice(a);
    }
    p
}

fn find(hay: &[u8], needle: &[u8]) -> Option<usize> {
    if needle.is_empty() || hay.len() < needle.len() {
        return None;
    }
    hay.windows(needle.len()).position(|w| w == needle)
}

impl Oracle {
    fn pair(&mut self, ctx: &mut Ctx, a: &((u32, u32), Vec<u8>, Vec<u8>), b: &((u32, u32), Vec<u8>, Vec<u8>)) -> Result<(), Violation> {
        let (ct1, pt1) = (&a.1, &a.2);
        let (ct2, pt2) = (&b.1, &b.2);
        let n = ct1.len().min(ct2.len()).min(pt1.len()).min(pt2.len());
        let d = match (0..n).find(|&i| pt1[i] != pt2[i]) {
            Some(d) => d,
            None => return Ok(()),
        };
        // longest range [d, e) on which ct1^ct2 == pt1^pt2
        let mut e = d;
        while e < n && (ct1[e] ^ ct2[e]) == (pt1[e] ^ pt2[e]) {
            e += 1;
        }
        let block_end = ((d / BLOCK) + 1) * BLOCK;
        ctx.stats.probe("pairs_compared");
        ctx.stats.state(crate::choices::mix((d / BLOCK) as u64, crate::choices::mix((n / BLOCK) as u64, (d % BLOCK / 16) as u64)));
        if d >= BLOCK {
            ctx.stats.probe("pairs_diverging_in_a_later_block");
        }
        if e - d < 8 {
            // fewer than 8 matching bytes: indistinguishable from chance (and what a fixed cipher would show)
            if n - d >= 8 {
                ctx.stats.probe("pairs_with_independent_keystreams");
            }
            return Ok(());
        }
        // beyond the block containing d there must be no relation; look at every later position too
        let mut beyond = 0usize;
        let mut run = 0usize;
        for i in block_end.min(n)..n {
            if (ct1[i] ^ ct2[i]) == (pt1[i] ^ pt2[i]) {
                run += 1;
                beyond = beyond.max(run);
            } else {
                run = 0;
            }
        }
        if e > block_end.min(n) && e - block_end.min(n) >= 8 || beyond >= 8 {
            return Err(Violation::new(
                "c03.xor_beyond_block",
                "keystream_reuse_beyond_first_divergent_block",
                format!("reports {:?} and {:?} (same measurement, different aux): ct1^ct2 == pt1^pt2 from payload offset {} up to {} and for a run of {} bytes after the cipher block containing the first difference (block ends at {}): the keystream does not depend on the data at all", a.0, b.0, d, e, beyond, block_end),
            ));
        }
        ctx.stats.probe("pairs_showing_known_keystream_reuse");
        if self.held.is_none() {
            self.held = Some(Violation::new(
                "c03.xor_first_block",
                "keystream_reuse_within_first_divergent_block",
                format!("reports {:?} and {:?} (same measurement, different aux): ct1^ct2 == pt1^pt2 on payload bytes {}..{} (to the end of the {}-byte cipher block containing the first difference, not beyond): an observer of two sub-threshold reports learns aux1^aux2 there", a.0, b.0, d, e, BLOCK),
            ));
        }
        Ok(())
    }
}

impl AOracle for Oracle {
    fn on_sent(&mut self, ctx: &mut Ctx, w: &WorldA, s: &Sent) -> Result<(), Violation> {
        let g = &w.groups[s.group];
        let c = &w.clients[s.client];
        let pr = layout::parse_report(&s.bytes).ok_or_else(|| Violation::new("c03.layout", "layout", "honest report does not parse"))?;
        let pt = payload(&g.measurement, &c.aux);
        if pr.ct.len() != pt.len() {
            return Err(Violation::new("c03.length", "length", format!("ciphertext length {} differs from payload length {}: more than the length of the associated data is visible or framing changed", pr.ct.len(), pt.len())));
        }
        // (1) aux never in the clear
        if let Some(a) = &c.aux {
            if a.len() >= 8 {
                if let Some(off) = find(&s.bytes, a) {
                    return Err(Violation::new("c03.aux_clear", "aux_clear", format!("report {:?} carries its {}-byte associated data in the clear at offset {}", s.id, a.len(), off)));
                }
                // also any 16-byte piece of it
                if a.len() >= 16 {
                    let mid = (a.len() - 16) / 2;
                    if let Some(off) = find(&s.bytes, &a[mid..mid + 16]) {
                        return Err(Violation::new("c03.aux_clear", "aux_piece_clear", format!("report {:?} carries 16 bytes of its associated data in the clear at offset {}", s.id, off)));
                    }
                }
                ctx.stats.probe("aux_scanned");
            }
        }
        // (2) nothing carried in the report decrypts the payload
        if pt.len() >= 8 {
            let head = pt.len().min(32);
            let ct_head = Ciphertext::from_bytes(&pr.ct[..head]);
            let ct_off = 4usize;
            let ct_end = 4 + pr.ct.len();
            let mut offsets: Vec<usize> = Vec::new();
            // every window outside the ciphertext chunk, plus windows straddling its edges, plus drawn windows inside
            for o in 0..s.bytes.len() {
                if o + 16 <= ct_off + 8 || o + 8 >= ct_end {
                    offsets.push(o);
                }
            }
            for _ in 0..16 {
                offsets.push(ctx.ch.index(s.bytes.len()));
            }
            for o in offsets {
                if o + 16 <= s.bytes.len() {
                    let k = &s.bytes[o..o + 16];
                    if ct_head.decrypt(k, "star_encrypt")[..head] == pt[..head] {
                        return Err(Violation::new("c03.window_decrypts", "key16", format!("the 16 bytes at offset {} of report {:?} decrypt its payload", o, s.id)));
                    }
                    ctx.stats.probe("windows_tried");
                }
                if o + 32 <= s.bytes.len() {
                    let mut key = [0u8; 16];
                    derive_ske_key(&s.bytes[o..o + 32], &g.epoch, &mut key);
                    if ct_head.decrypt(&key, "star_encrypt")[..head] == pt[..head] {
                        return Err(Violation::new("c03.window_decrypts", "seed32", format!("the 32 bytes at offset {} of report {:?}, used as key seed, decrypt its payload", o, s.id)));
                    }
                }
            }
        }
        // (3) pairs
        let me = ((s.id.0, s.id.1), pr.ct.clone(), pt);
        let earlier: Vec<_> = self.seen.get(&s.group).map(|v| v.iter().rev().take(5).cloned().collect()).unwrap_or_default();
        for other in &earlier {
            self.pair(ctx, other, &me)?;
        }
        self.seen.entry(s.group).or_default().push(me);
        Ok(())
    }
    fn at_quiescence(&mut self, ctx: &mut Ctx, _w: &WorldA) -> Result<(), Violation> {
        if ctx.stats.probes.get("pairs_compared").copied().unwrap_or(0) > 0 {
            ctx.stats.nontrivial = true;
        }
        match self.held.take() {
            Some(v) => Err(v),
            None => Ok(()),
        }
    }
}

impl Property for C03 {
    fn id(&self) -> &'static str {
        "C03"
    }
    fn world(&self) -> &'static str {
        "A (STAR reporting) with a wire observer"
    }
    fn rule(&self) -> &'static str {
        "one run = a world-A history in which the clients of a group attach different associated data (shared prefix of 0/10/200 bytes + unique suffix; measurement lengths chosen so the first difference falls in cipher block 0, 1 or 2); the observer scans every sent report for the aux in the clear, tries every 16-byte window (as key) and 32-byte window (as key seed) outside the ciphertext chunk plus drawn windows inside it against the payload, and for every pair of reports of a group tests ct1^ct2 == pt1^pt2 from the first differing payload byte on. non-trivial = at least one pair was compared; distinct = distinct event digests; states = (cipher block of the first difference, payload length in blocks, offset class within the block) cells"
    }
    fn runs(&self, thorough: bool) -> u64 {
        if thorough { 60_000 } else { 1_500 }
    }
    fn run(&self, ctx: &mut Ctx) -> Result<(), Violation> {
        let mut gen = GenCfg::standard(ctx.thorough);
        gen.max_groups = 3;
        gen.max_clients_total = 24;
        gen.thresholds = vec![2, 3, 5, 8, 20];
        gen.count_offsets = vec![-1, -2, 0, 1];
        gen.meas_lens = vec![0, 5, 32, 100, 150, 158, 162, 170, 330, 400];
        gen.aux_kinds = vec![8, 20, 100, 166, 170, 300, 400, 1000];
        gen.sources = vec![0, 0, 1, 2];
        let net = NetCfg { drop: 100, dup: 0, replay: 0, misdeliver: 0, corrupt: 0, min_latency_us: 1_000, jitter_us: 100_000, long_delay: 0, long_delay_us: 0 };
        let mut w = WorldA::build(ctx, gen, net, false);
        // per group: shared aux prefix + unique suffix, so the first difference lands at drawn depths
        for gi in 0..w.groups.len() {
            let plen = *ctx.ch.pick(&[0usize, 0, 10, 200]);
            let prefix = ctx.ch.bytes(plen);
            for &ci in &w.groups[gi].clients.clone() {
                let c = &mut w.clients[ci];
                let mut a = prefix.clone();
                let mut suffix = c.aux.clone().unwrap_or_default();
                if suffix.is_empty() {
                    suffix = vec![0u8; 8];
                }
                suffix[0] = ci as u8; // distinct first suffix byte per client
                suffix[1] = 0x5a ^ (ci as u8).rotate_left(3);
                a.extend(suffix);
                c.aux = Some(a);
            }
        }
        let mut o = Oracle::default();
        w.run(ctx, &mut o)
    }
    fn real_components(&self) -> Vec<&'static str> {
        vec!["sta_rs::{Message::generate, Ciphertext::new/decrypt, derive_ske_key, store_bytes}", "adss", "star-sharks", "strobe-rs"]
    }
    fn stub_components(&self) -> Vec<&'static str> {
        vec!["network", "OS entropy source", "client driver", "wire observer (harness)"]
    }
    fn assumptions(&self) -> Vec<&'static str> {
        vec!["structural check: 'reveals nothing' is decided as no clear aux, no carried decryption key, no two-time-pad relation; pseudorandomness of Strobe is trusted", "a relation over fewer than 8 bytes is treated as chance", "cipher block = 166 bytes (Strobe-128 rate) with the payload starting at a block boundary, as observed"]
    }
    fn key_probes(&self) -> Vec<&'static str> {
        vec!["pairs_compared", "pairs_diverging_in_a_later_block", "aux_scanned", "windows_tried"]
    }
}
