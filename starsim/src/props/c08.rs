//! C08 — wire encodings round-trip and reject malformed input, in agreement
//! with an independent parser of the documented layouts (DESIGN.md §4 C08).
use crate::choices::hex;
use crate::faults;
use crate::kernel::{Ctx, NetCfg, Violation};
use crate::models::{layout, shamir_big};
use crate::osrng::ScriptRng;
use crate::runner::{guarded, Property};
use crate::worlds::a::{AOracle, GenCfg, WorldA};
use num_bigint::BigUint;
use std::convert::TryFrom;

pub struct C08;

#[derive(Clone, Copy, PartialEq, Eq)]
pub enum Kind {
    Report,
    Share,
    Sharks,
}

/// Compare the real decoder with the independent parser on one byte string.
pub fn differential(ctx: &mut Ctx, kind: Kind, b: &[u8], how: &str) -> Result<(), Violation> {
    // (accepted?, canonical re-encoding)
    let real: Result<Option<Vec<u8>>, _> = match kind {
        Kind::Report => guarded(|| sta_rs::Message::from_bytes(b).map(|m| m.to_bytes())),
        Kind::Share => guarded(|| {
            let a = adss::Share::from_bytes(b).map(|s| s.to_bytes());
            let s = sta_rs::Share::from_bytes(b).map(|s| s.to_bytes());
            assert!(a == s, "sta_rs::Share and adss::Share decoders disagree");
            a
        }),
        Kind::Sharks => guarded(|| star_sharks::Share::try_from(b).ok().map(|s| Vec::from(&s))),
    };
    let real = match real {
        Ok(r) => r,
        Err((loc, msg)) => {
            if msg.contains("decoders disagree") {
                return Err(Violation::new("c08.accept_mismatch", "wrapper", format!("sta_rs::Share::from_bytes and adss::Share::from_bytes disagree on {} ({})", hex(&b[..b.len().min(80)]), how)));
            }
            // a panicking decoder is C09's subject
            let _ = loc;
            ctx.stats.probe("decoder_panicked_left_to_C09");
            return Ok(());
        }
    };
    let model: Option<Vec<u8>> = match kind {
        Kind::Report => layout::parse_report(b).map(|r| layout::encode_report(&r)),
        Kind::Share => layout::parse_share(b).map(|s| layout::encode_share(&s)),
        Kind::Sharks => layout::parse_s(b).map(|(x, ys)| layout::encode_s(&x, &ys)),
    };
    let name = match kind {
        Kind::Report => "Message::from_bytes",
        Kind::Share => "Share::from_bytes",
        Kind::Sharks => "star_sharks::Share::try_from",
    };
    ctx.stats.probe("differential_decodes");
    {
        // state cell: decoder x fault class x (real accepts, parser accepts)
        let class = how.split(|c: char| c == ' ' || c == '@' || c == ':').next().unwrap_or("");
        ctx.stats.state(crate::choices::mix(crate::choices::str_hash(name), crate::choices::mix(crate::choices::str_hash(class), (real.is_some() as u64) * 2 + model.is_some() as u64)));
    }
    match (&real, &model) {
        (None, None) => {
            ctx.stats.probe("both_reject");
            Ok(())
        }
        (Some(r), Some(m)) => {
            ctx.stats.probe("both_accept");
            if m.as_slice() != b {
                ctx.stats.probe("accepted_noncanonical_input");
            }
            if r != m {
                return Err(Violation::new(
                    "c08.noncanonical_reencode",
                    name,
                    format!("{} accepted a {}-byte input ({}) but its re-encoding ({}B) is not the canonical form ({}B) of the input; input {}", name, b.len(), how, r.len(), m.len(), hex(&b[..b.len().min(120)])),
                ));
            }
            Ok(())
        }
        (Some(_), None) => Err(Violation::new(
            "c08.accept_mismatch",
            format!("{}:accepts_invalid", name),
            format!("{} ACCEPTS a structurally invalid {}-byte input ({}) that the layout parser rejects: {}", name, b.len(), how, hex(&b[..b.len().min(120)])),
        )),
        (None, Some(_)) => Err(Violation::new(
            "c08.accept_mismatch",
            format!("{}:rejects_valid", name),
            format!("{} REJECTS a {}-byte input ({}) that follows the documented layout: {}", name, b.len(), how, hex(&b[..b.len().min(120)])),
        )),
    }
}

fn field_element_faults(b: &[u8], s0: usize, sl: usize) -> Vec<(Vec<u8>, String)> {
    let mut out = Vec::new();
    let p = shamir_big::p();
    let vals: Vec<(&str, BigUint)> = vec![
        ("p", p.clone()),
        ("p+1", &p + 1u32),
        ("p-1", &p - 1u32),
        ("2^129", BigUint::from(1u32) << 129),
        ("2^192-1", (BigUint::from(1u32) << 192) - 1u32),
        ("0", BigUint::from(0u32)),
    ];
    for e in 0..sl / 24 {
        for (n, v) in &vals {
            let mut c = b.to_vec();
            c[s0 + e * 24..s0 + e * 24 + 24].copy_from_slice(&shamir_big::to_le24(v));
            out.push((c, format!("element {} := {}", e, n)));
        }
    }
    out
}

/// The enumerated fault battery around one honest encoding.
pub fn battery(ctx: &mut Ctx, kind: Kind, honest: &[u8], full: bool, pool: &[Vec<u8>]) -> Result<(), Violation> {
    let lay = match kind {
        Kind::Report => layout::report_fields(honest),
        Kind::Share => layout::share_fields(honest, 0),
        Kind::Sharks => faults::Layout::default(),
    };
    // truncation: every prefix (full) or a drawn window of prefixes
    if full {
        for k in 0..honest.len() {
            differential(ctx, kind, &honest[..k], &format!("truncate to {}", k))?;
        }
        ctx.stats.fault("truncate_every_prefix");
    } else {
        for _ in 0..8 {
            let k = ctx.ch.index(honest.len());
            differential(ctx, kind, &honest[..k], &format!("truncate to {}", k))?;
            ctx.stats.fault("truncate");
        }
    }
    // extension
    for k in [1usize, 3, 23, 24, 25, 64] {
        let mut b = honest.to_vec();
        b.extend(std::iter::repeat(0xA5).take(k));
        differential(ctx, kind, &b, &format!("extend by {}", k))?;
        ctx.stats.fault("extend");
    }
    // every length / threshold field to every boundary value
    for &off in &lay.len_fields {
        let cur = u32::from_le_bytes([honest[off], honest[off + 1], honest[off + 2], honest[off + 3]]);
        for v in faults::lenfield_values(cur, honest.len() - off - 4) {
            let mut b = honest.to_vec();
            b[off..off + 4].copy_from_slice(&v.to_le_bytes());
            differential(ctx, kind, &b, &format!("length field @{} := {}", off, v))?;
            ctx.stats.fault("lenfield");
        }
    }
    // out-of-range / boundary field elements
    let (s0, sl) = match kind {
        Kind::Report => layout::parse_report(honest).map(|r| (r.share_off + r.share.offs[0], r.share.offs[1])).unwrap_or((0, 0)),
        Kind::Share => layout::parse_share(honest).map(|s| (s.offs[0], s.offs[1])).unwrap_or((0, 0)),
        Kind::Sharks => (0, honest.len()),
    };
    for (b, how) in field_element_faults(honest, s0, sl) {
        differential(ctx, kind, &b, &how)?;
        ctx.stats.fault("field_element_out_of_range");
    }
    // a trailing PARTIAL element inside the S chunk (1..23 extra bytes, all enclosing length prefixes
    // consistent): structurally valid, ignored by design, canonical form drops it
    if kind != Kind::Sharks && sl >= 24 {
        for r in [1usize, 4, 12, 23] {
            let extra: Vec<u8> = if r == 4 {
                // the crafted case: the 4 extra bytes look like the next length prefix
                ((honest.len() as u32) & 0xff).to_le_bytes().to_vec()
            } else {
                (0..r).map(|i| 0xC0 ^ i as u8).collect()
            };
            let mut b = honest[..s0 + sl].to_vec();
            b.extend_from_slice(&extra);
            b.extend_from_slice(&honest[s0 + sl..]);
            // S.len sits 4 bytes before the S chunk; for a report the share chunk's prefix sits
            // 8 bytes before the threshold field
            let slen_off = s0 - 4;
            b[slen_off..slen_off + 4].copy_from_slice(&((sl + r) as u32).to_le_bytes());
            if kind == Kind::Report {
                let share_off = s0 - 8; // share chunk starts with threshold(4) | S.len(4)
                let sh_len_off = share_off - 4;
                let cur = u32::from_le_bytes([b[sh_len_off], b[sh_len_off + 1], b[sh_len_off + 2], b[sh_len_off + 3]]);
                b[sh_len_off..sh_len_off + 4].copy_from_slice(&(cur + r as u32).to_le_bytes());
            }
            differential(ctx, kind, &b, &format!("partial element of {} bytes appended inside S", r))?;
            ctx.stats.fault("partial_trailing_element_in_S");
        }
    }
    // byte faults: every offset (full, <= 700 bytes) or sampled offsets
    let offs: Vec<usize> = if full && honest.len() <= 700 { (0..honest.len()).collect() } else { (0..24).map(|_| ctx.ch.index(honest.len().max(1))).collect() };
    for o in offs {
        if o >= honest.len() {
            continue;
        }
        for (v, n) in [(0x00u8, "00"), (0xff, "ff"), (honest[o].wrapping_add(1), "+1"), (honest[o] ^ 0x80, "^80")] {
            if v == honest[o] {
                continue;
            }
            let mut b = honest.to_vec();
            b[o] = v;
            differential(ctx, kind, &b, &format!("byte @{} := {}", o, n))?;
            ctx.stats.fault("byte_fault");
        }
    }
    // splices with other messages of the history, garbage
    for _ in 0..4 {
        let (b, k) = faults::corrupt(ctx, honest, &lay, &["splice", "fieldswap", "garbage"], pool);
        if k != "noop" {
            ctx.stats.fault(k);
            differential(ctx, kind, &b, k)?;
        }
    }
    Ok(())
}

struct Oracle {
    did_full: bool,
}

impl AOracle for Oracle {
    fn on_deliver(&mut self, ctx: &mut Ctx, w: &WorldA, idx: usize) -> Result<(), Violation> {
        let d = &w.delivered[idx];
        let s = w.origin(d);
        // what the transport delivered (possibly corrupted): decoder vs parser
        differential(ctx, Kind::Report, &d.bytes, &format!("transport faults {:?}", d.faults))?;
        if d.faults.is_empty() {
            // (1) honest delivery: decode == the sender's value, layout as documented
            let m = sta_rs::Message::from_bytes(&d.bytes);
            if m.as_ref() != Some(&s.msg) {
                return Err(Violation::new("c08.roundtrip", "report", format!("decoding the encoding of report {:?} does not give back the sender's value", d.id)));
            }
            let g = &w.groups[s.group];
            let pr = layout::parse_report(&d.bytes).ok_or_else(|| Violation::new("c08.layout", "report", format!("honest report {:?} does not parse under the documented layout", d.id)))?;
            let share_bytes = s.msg.share.to_bytes();
            let problems = [
                (pr.share.threshold != g.threshold, "threshold field is not the little-endian threshold"),
                (pr.tag != s.msg.tag || pr.tag.len() != 32, "tag chunk"),
                (pr.ct != s.msg.ciphertext.to_bytes(), "ciphertext chunk"),
                (d.bytes[pr.share_off..pr.share_off + pr.share_len] != share_bytes[..], "share chunk"),
                (pr.share.j.len() != 64, "64-byte authentication tag"),
                (pr.share.ys.len() != 1, "one 24-byte y element after x"),
                (layout::encode_report(&pr) != d.bytes, "canonical re-encoding by the parser differs"),
                (pr.ct.len() != 4 + g.measurement.len() + w.clients[s.client].aux.as_ref().map(|a| 4 + a.len()).unwrap_or(0), "ciphertext length = framed payload length"),
            ];
            for (bad, what) in problems {
                if bad {
                    return Err(Violation::new("c08.layout", what, format!("honest report {:?} deviates from the documented layout: {}", d.id, what)));
                }
            }
            ctx.stats.probe("honest_roundtrips");
            // (2) the enumerated battery around this honest encoding
            let full = ctx.thorough || !self.did_full;
            self.did_full = true;
            let pool: Vec<Vec<u8>> = w.sent.values().take(6).map(|x| x.bytes.clone()).collect();
            if d.bytes.len() <= 1200 || ctx.ch.chance(1, 4) {
                battery(ctx, Kind::Report, &d.bytes, full && d.bytes.len() <= 700, &pool)?;
            }
            let spool: Vec<Vec<u8>> = w.sent.values().take(6).map(|x| x.msg.share.to_bytes()).collect();
            battery(ctx, Kind::Share, &share_bytes, full, &spool)?;
            let p = layout::parse_share(&share_bytes).unwrap();
            battery(ctx, Kind::Sharks, &share_bytes[p.offs[0]..p.offs[0] + p.offs[1]], full, &[])?;
        } else {
            ctx.stats.probe("corrupted_deliveries");
        }
        Ok(())
    }
}

/// World-B part: adss shares with arbitrary message / coin lengths and sharks
/// shares with k y-values cross the wire.
fn lower_layers(ctx: &mut Ctx) -> Result<(), Violation> {
    // the public 4-byte decoders on their own: load_u32 and AccessStructure::from_bytes (threshold field). A
    // truncated field (0..3 bytes) is structurally invalid and must be refused; the 4-byte field decodes to its
    // little-endian value and re-encodes to itself; for a longer input a decoder may refuse, or read the
    // leading field and ignore the rest (then the value is that of the first 4 bytes).
    {
        let v = *ctx.ch.pick(&[0u32, 1, 2, 255, 256, 65_535, 65_536, 0x0100_0000, 0x8000_0000, u32::MAX, 0x0403_0201]);
        let full = v.to_le_bytes();
        for n in 0..=7usize {
            let mut inp = full.to_vec();
            inp.resize(n.max(4), 0xaa);
            inp.truncate(n);
            let got = adss::load_u32(&inp);
            let acc = adss::AccessStructure::from_bytes(&inp).map(|a| u32::from_le_bytes(a.to_bytes()));
            for (what, g) in [("load_u32", got), ("AccessStructure::from_bytes", acc)] {
                let ok = match (n, g) {
                    (0..=3, None) => true,
                    (0..=3, Some(_)) => false,
                    (4, Some(x)) => x == v,
                    (4, None) => false,
                    (_, None) => true,
                    (_, Some(x)) => x == v,
                };
                if !ok {
                    return Err(Violation::new("c08.accept_mismatch", "four_byte_field", format!("{} on {} of the bytes {:02x?} (+ filler) returned {:?}: a truncated field must be refused, a whole one must decode to {}", what, n, full, g, v)));
                }
            }
            ctx.stats.fault("truncate_four_byte_field");
        }
    }
    let lens: Vec<usize> = if ctx.ch.chance(1, 12) { vec![0, 65_535, 65_536, 70_000] } else { vec![0usize, 1, 15, 16, 17, 32, 165, 166, 167, 1000] };
    let t = *ctx.ch.pick(&[0u32, 1, 2, 3, 5, 17, 100]);
    let ml = *ctx.ch.pick(&lens);
    let rl = *ctx.ch.pick(&lens);
    let m = ctx.ch.bytes(ml);
    let r = ctx.ch.bytes(rl);
    let share = ctx.os.with_node(500, || adss::Commune::new(t, m.clone(), r.clone(), None).share());
    if let Ok(share) = share {
        let b = share.to_bytes();
        if adss::Share::from_bytes(&b).as_ref() != Some(&share) {
            return Err(Violation::new("c08.roundtrip", "adss share", format!("adss share (t={}, |M|={}, |R|={}) does not round-trip", t, ml, rl)));
        }
        let p = layout::parse_share(&b).ok_or_else(|| Violation::new("c08.layout", "adss share", "honest adss share does not parse under the documented layout"))?;
        if p.threshold != t || p.c.len() != ml || p.d.len() != rl || layout::encode_share(&p) != b {
            return Err(Violation::new("c08.layout", "adss share fields", format!("adss share (t={}, |M|={}, |R|={}) deviates from the layout", t, ml, rl)));
        }
        ctx.stats.probe("adss_roundtrips");
        battery(ctx, Kind::Share, &b, ctx.thorough && b.len() < 5_000, &[])?;
    }
    // sharks: k y-values
    let k = ctx.ch.index(6);
    let mut secret = Vec::new();
    for _ in 0..k {
        let mut e = ctx.ch.bytes(24);
        e[16] &= 1;
        for x in &mut e[17..] {
            *x = 0;
        }
        if e[16] == 1 {
            // keep below p = 2^128 + 12451
            for x in &mut e[2..16] {
                *x = 0;
            }
            e[1] &= 0x1f;
        }
        secret.extend(e);
    }
    let seed = ctx.ch.draw(1 << 32);
    let mut rng = ScriptRng::new(vec![], seed);
    let ts = 1 + ctx.ch.index(5) as u32;
    if let Ok(mut ev) = star_sharks::Sharks(ts).dealer_rng(&secret, &mut rng) {
        let sh = if ctx.ch.chance(1, 2) { ev.next().unwrap() } else { ev.gen(&mut rng) };
        let b = Vec::from(&sh);
        if star_sharks::Share::try_from(&b[..]).ok().as_ref() != Some(&sh) {
            return Err(Violation::new("c08.roundtrip", "sharks share", format!("sharks share with {} y-values does not round-trip", k)));
        }
        if b.len() != 24 * (k + 1) || layout::parse_s(&b).map(|(x, ys)| layout::encode_s(&x, &ys)) != Some(b.clone()) {
            return Err(Violation::new("c08.layout", "sharks share", format!("sharks share with {} y-values deviates from x|y1..yk 24-byte LE layout", k)));
        }
        ctx.stats.probe("sharks_roundtrips");
        battery(ctx, Kind::Sharks, &b, ctx.thorough, &[])?;
    }
    Ok(())
}

impl Property for C08 {
    fn id(&self) -> &'static str {
        "C08"
    }
    fn level(&self) -> &'static str {
        "fault_enumeration"
    }
    fn world(&self) -> &'static str {
        "A + B (reports, adss shares and sharks shares crossing the simulated wire)"
    }
    fn rule(&self) -> &'static str {
        "one run = a world-A history (dup/reorder + 30% corrupted deliveries) plus one adss and one sharks dealing; every honest delivery must decode to the sender's value and match the documented layout as read by an independent parser; around each honest encoding the fault set is ENUMERATED (every prefix, every boundary value in each of the 7 length/threshold fields, 4 byte faults at every offset, boundary/out-of-range field elements in every element slot, extensions, splices) and real decoder and parser must agree on accept/reject and on the canonical re-encoding. quick enumerates fully around one report per run and samples around the others; thorough enumerates around all. non-trivial = a non-canonical input was accepted by both and re-encoded canonically; distinct = distinct event digests; states = (decoder, fault class, accept/reject by decoder and by parser) cells"
    }
    fn runs(&self, thorough: bool) -> u64 {
        if thorough { 40_000 } else { 3_000 }
    }
    fn run(&self, ctx: &mut Ctx) -> Result<(), Violation> {
        let mut gen = GenCfg::standard(false);
        gen.max_groups = 3;
        gen.max_clients_total = 8;
        gen.thresholds = vec![1, 2, 2, 3, 7, 300, 1025];
        gen.count_offsets = vec![-1, 0, 1];
        gen.meas_lens = vec![0, 1, 11, 32, 170, 600];
        gen.aux_kinds = vec![-1, 0, 4, 200];
        gen.sources = vec![0, 1];
        gen.corrupt_kinds = faults::KINDS.to_vec();
        // every 12th run: chunks beyond 64 KiB (size-dependent decoder paths)
        if ctx.ch.chance(1, 12) {
            gen.meas_lens = vec![6, 70_000];
            gen.aux_kinds = vec![-1, 65_522, 66_000];
            gen.max_clients_total = 4;
            ctx.stats.probe("runs_with_chunks_over_64KiB");
        }
        // large thresholds are only written to the wire (client counts are capped)
        let net = NetCfg { drop: 0, dup: 100, replay: 0, misdeliver: 0, corrupt: 300, min_latency_us: 1000, jitter_us: 50_000, long_delay: 0, long_delay_us: 0 };
        let mut w = WorldA::build(ctx, gen, net, false);
        let mut o = Oracle { did_full: false };
        w.run(ctx, &mut o)?;
        lower_layers(ctx)?;
        if ctx.stats.probes.get("accepted_noncanonical_input").copied().unwrap_or(0) > 0 {
            ctx.stats.nontrivial = true;
        }
        Ok(())
    }
    fn real_components(&self) -> Vec<&'static str> {
        vec!["sta_rs::Message::{to_bytes, from_bytes}", "sta_rs::Share / adss::Share::{to_bytes, from_bytes}", "star_sharks::Share::{try_from, Vec::from}", "adss::{store_bytes, load_bytes}", "adss::Commune::share", "Sharks::dealer_rng"]
    }
    fn stub_components(&self) -> Vec<&'static str> {
        vec!["network + corruption (starsim)", "OS entropy source", "client driver"]
    }
    fn assumptions(&self) -> Vec<&'static str> {
        vec!["the independent parser (models/layout.rs, ~150 lines, num-bigint) encodes the documented layout correctly; it is exercised against the real encoder on every honest message", "decoder panics are C09's subject and are only counted here"]
    }
    fn key_probes(&self) -> Vec<&'static str> {
        vec!["honest_roundtrips", "both_accept", "both_reject", "accepted_noncanonical_input", "adss_roundtrips", "sharks_roundtrips", "corrupted_deliveries", "runs_with_chunks_over_64KiB"]
    }
}
