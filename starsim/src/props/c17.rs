//! C17 — the WASM string API is a faithful wrapper of the core protocol
//! (DESIGN.md §4 C17). World A with WASM client and aggregator variants
//! (the crate is run natively).
use crate::choices::hex_short;
use crate::ev;
use crate::kernel::{Ctx, Net, NetCfg, Violation};
use crate::models::{layout, shamir_big};
use crate::runner::{guarded, Property};
use crate::worlds::b::{self, Delivery};
use base64::{engine::Engine as _, prelude::BASE64_STANDARD};
use num_bigint::BigUint;
use sta_rs::{MessageGenerator, Share, SingleMeasurement};
use std::collections::{BTreeMap, BTreeSet};

pub struct C17;

struct Group {
    m: Vec<u8>,
    t: u32,
    epoch: String,
    key: [u8; 16],
    tag: [u8; 32],
}

const EPOCHS: &[&str] = &["", "t", "epoch-1", "2024-W07", "é", "日本語のエポック", "😀", "a\u{0301}b", "line\nbreak", "quote\"s", "7", "7 ", " 7", "7\n", "7\u{a0}", " ", "\t", "\u{3000}x"];

impl Property for C17 {
    fn id(&self) -> &'static str {
        "C17"
    }
    fn world(&self) -> &'static str {
        "A (STAR reporting) with WASM clients (create_share) and a WASM aggregator (group_shares), run natively"
    }
    fn rule(&self) -> &'static str {
        "one run = 1..4 groups (measurement bytes, threshold, epoch string: empty / ASCII / multi-byte UTF-8) with WASM clients around the threshold plus one core client each; every create_share output is parsed as JSON, its base64 fields decoded and compared with what the core library derives for the same triple; the base64 share lines cross the transport (drop/dup/reorder) to the aggregator which joins what arrived with newlines and calls group_shares: Some(clients' key) iff >= t distinct shares arrived, None when fewer, None for a mix in which no measurement reaches its threshold, and under another epoch never the clients' key. non-trivial = one group answered Some and one None in the same run; states = (t, distinct delivered - t) cells"
    }
    fn runs(&self, thorough: bool) -> u64 {
        if thorough { 150_000 } else { 4_000 }
    }
    fn run(&self, ctx: &mut Ctx) -> Result<(), Violation> {
        let ng = 1 + ctx.ch.index(4);
        let mut groups: Vec<Group> = Vec::new();
        let mut msgs: Vec<(u32, Vec<u8>)> = Vec::new();
        let mut msg_group: Vec<usize> = Vec::new();
        let mut node = 100u32;
        // every third run: the groups are a CONFUSABLE family - one ASCII/UTF-8 base string split at
        // different positions into (measurement, epoch), same threshold - dealt back to back
        let family: Option<(String, u32)> = if ctx.ch.chance(1, 3) {
            let base = ctx.ch.pick(&["abc", "week-é", "2024-W07x", "ab", "日本語"]).to_string();
            Some((base, *ctx.ch.pick(&[1u32, 2, 3])))
        } else {
            None
        };
        for gi in 0..ng {
            let ml = *ctx.ch.pick(&[0usize, 1, 5, 20, 32, 200]);
            let mut m = ctx.ch.bytes(ml);
            if let Some(b) = m.first_mut() {
                *b = gi as u8;
            }
            let mut t = if ctx.ch.chance(1, 25) { 70 } else { *ctx.ch.pick(&[1u32, 2, 2, 3, 3, 5, 9]) };
            let mut epoch = ctx.ch.pick(EPOCHS).to_string();
            if let Some((base, ft)) = &family {
                // split at a char boundary
                let cuts: Vec<usize> = (0..=base.len()).filter(|i| base.is_char_boundary(*i)).collect();
                // half of the families vary the split (same threshold); the other half keep ONE
                // (measurement, epoch) and vary only the threshold from group to group
                let vary_threshold = base.len() % 2 == 1;
                let c = if vary_threshold { cuts[cuts.len() / 2] } else { cuts[(gi + ctx.ch.index(cuts.len())) % cuts.len()] };
                m = base.as_bytes()[..c].to_vec();
                epoch = base[c..].to_string();
                t = if vary_threshold { 1 + ((*ft + gi as u32) % 4) } else { *ft };
                ctx.stats.probe("confusable_measurement_epoch_groups");
            }
            if groups.iter().any(|g| g.m == m && g.t == t && g.epoch == epoch) {
                continue;
            }
            // what the core library derives for this triple
            let mg = MessageGenerator::new(SingleMeasurement::new(&m), t, epoch.as_bytes());
            let core = ctx.os.with_node(node as u64, || mg.share_with_local_randomness()).map_err(|e| Violation::new("c17.setup", "core", e.to_string()))?;
            node += 1;
            // boundary thresholds the groups never use (0, and two large ones): the string API and the core
            // library must derive the same key and tag there as well, and carry the threshold asked for
            if gi == 0 {
                for bt in [0u32, 65_536, u32::MAX] {
                    let mgb = MessageGenerator::new(SingleMeasurement::new(&m), bt, epoch.as_bytes());
                    let mut rb = [0u8; 32];
                    mgb.sample_local_randomness(&mut rb);
                    if bt != 0 {
                        continue; // (a share for a huge threshold takes minutes; only the randomness is cheap)
                    }
                    let coreb = ctx.os.with_node(node as u64, || mgb.share_with_local_randomness()).map_err(|e| Violation::new("c17.setup", "core", e.to_string()))?;
                    let js = ctx.os.with_node(node as u64, || star_wasm::create_share(&m, bt, &epoch));
                    let v: serde_json::Value = serde_json::from_str(&js).map_err(|e| Violation::new("c17.json", "malformed", format!("create_share returned malformed JSON ({})", e)))?;
                    let dec = |name: &str| v[name].as_str().and_then(|s| BASE64_STANDARD.decode(s).ok()).unwrap_or_default();
                    let (key, share, tag) = (dec("key"), dec("share"), dec("tag"));
                    if key != coreb.key || tag != coreb.tag {
                        return Err(Violation::new("c17.core_mismatch", if key != coreb.key { "key" } else { "tag" }, format!("create_share's {} for threshold {} differs from what the core library derives for the same measurement, threshold and epoch", if key != coreb.key { "key" } else { "tag" }, bt)));
                    }
                    if layout::parse_share(&share).map(|p| p.threshold) != Some(bt) {
                        return Err(Violation::new("c17.core_mismatch", "threshold", format!("create_share's share for threshold {} carries another threshold", bt)));
                    }
                    ctx.stats.probe("boundary_threshold_compared_with_core");
                }
            }
            let g = Group { m: m.clone(), t, epoch: epoch.clone(), key: core.key, tag: core.tag };
            ev!(ctx, "group {} m={} t={} epoch={:?}", gi, hex_short(&m), t, epoch);
            let n = (t as i64 + *ctx.ch.pick(&[-1i64, 0, 0, 1, 2])).max(1) as usize;
            for _ in 0..n {
                let js = ctx.os.with_node(node as u64, || star_wasm::create_share(&m, t, &epoch));
                // well-formed JSON with the three base64 fields
                let v: serde_json::Value = serde_json::from_str(&js).map_err(|e| Violation::new("c17.json", "malformed", format!("create_share returned malformed JSON ({}): {:?}", e, &js[..js.len().min(80)])))?;
                let field = |name: &str| -> Result<Vec<u8>, Violation> {
                    let s = v[name].as_str().ok_or_else(|| Violation::new("c17.json", "missing_field", format!("create_share JSON lacks string field {:?}", name)))?;
                    BASE64_STANDARD.decode(s).map_err(|e| Violation::new("c17.json", "bad_base64", format!("field {:?} is not base64: {}", name, e)))
                };
                let (key, share, tag) = (field("key")?, field("share")?, field("tag")?);
                if key.len() != 16 || tag.len() != 32 {
                    return Err(Violation::new("c17.json", "field_lengths", format!("key is {} bytes, tag is {} bytes", key.len(), tag.len())));
                }
                if Share::from_bytes(&share).is_none() {
                    return Err(Violation::new("c17.json", "share_invalid", "the share field does not decode with Share::from_bytes"));
                }
                if key != g.key || tag != g.tag {
                    return Err(Violation::new("c17.core_mismatch", if key != g.key { "key" } else { "tag" }, format!("create_share's {} differs from what the core library derives for the same measurement, threshold and epoch (group {})", if key != g.key { "key" } else { "tag" }, gi)));
                }
                let ps = layout::parse_share(&share).ok_or_else(|| Violation::new("c17.json", "share_layout", "share bytes do not follow the layout"))?;
                if ps.threshold != t {
                    return Err(Violation::new("c17.core_mismatch", "threshold", "share carries another threshold"));
                }
                ctx.stats.probe("create_share_outputs_checked");
                msgs.push((node, v["share"].as_str().unwrap().as_bytes().to_vec()));
                msg_group.push(groups.len());
                node += 1;
            }
            // the core client's own share also goes to the aggregator: WASM and core shares combine
            if ctx.ch.chance(2, 3) {
                msgs.push((node, BASE64_STANDARD.encode(core.share.to_bytes()).into_bytes()));
                msg_group.push(groups.len());
                node += 1;
                ctx.stats.probe("core_share_mixed_in");
            }
            groups.push(g);
        }
        // ---- transport
        let mut cfg = NetCfg { drop: 150, dup: 150, replay: 0, misdeliver: 0, corrupt: 0, min_latency_us: 1000, jitter_us: 200_000, long_delay: 0, long_delay_us: 0 };
        if !ctx.ch.chance(2, 3) {
            cfg.drop = 0;
        }
        let mut net = Net::new(cfg);
        let mut inbox: BTreeMap<usize, Vec<String>> = BTreeMap::new();
        b::transport(ctx, &mut net, &msgs, 300_000, |_ctx, d: &Delivery| {
            inbox.entry(msg_group[d.msg]).or_default().push(String::from_utf8(d.bytes.clone()).expect("base64 is ascii"));
            Ok(())
        })?;
        // ---- aggregator
        let mut saw_some = false;
        let mut saw_none = false;
        let distinct = |lines: &[String]| -> usize {
            lines.iter().filter_map(|l| BASE64_STANDARD.decode(l).ok()).filter_map(|b| layout::parse_share(&b)).map(|p| p.x).collect::<BTreeSet<BigUint>>().len()
        };
        for (gi, lines) in &inbox {
            let g = &groups[*gi];
            let perm = ctx.ch.permutation(lines.len());
            let joined = perm.iter().map(|&i| lines[i].clone()).collect::<Vec<_>>().join("\n");
            let d = distinct(lines);
            ctx.stats.state(crate::choices::mix(g.t as u64, (d.min(g.t as usize + 2) as i64 - g.t as i64 + 80) as u64));
            if ctx.ch.chance(1, 4) {
                // A refused grouping first: the same lines with one damaged chunk (not base64 / a truncated share /
                // an empty line) after at least one good chunk. Whatever it answers, the honest grouping that
                // follows on this thread must not be coloured by it.
                // (the lines of ANOTHER bucket when there is one: the previous bucket this aggregator handled)
                let others: Vec<&Vec<String>> = inbox.iter().filter(|(k, _)| *k != gi).map(|(_, v)| v).collect();
                let src: &Vec<String> = if !others.is_empty() && ctx.ch.chance(2, 3) { others[ctx.ch.index(others.len())] } else { lines };
                let mut damaged: Vec<String> = src.clone();
                let bad = match ctx.ch.draw(3) {
                    0 => "!!not-base64!!".to_string(),
                    1 => {
                        let raw = BASE64_STANDARD.decode(&src[0]).unwrap_or_default();
                        BASE64_STANDARD.encode(&raw[..raw.len().saturating_sub(1 + ctx.ch.index(70))])
                    }
                    _ => String::new(),
                };
                let at = 1 + ctx.ch.index(damaged.len());
                damaged.insert(at, bad);
                let dj = damaged.join("\n");
                if let Ok(None) = guarded(|| star_wasm::group_shares(&dj, &g.epoch)) {
                    ctx.stats.fault("refused_grouping_before_valid_one");
                }
            }
            let res = guarded(|| star_wasm::group_shares(&joined, &g.epoch)).map_err(|(loc, msg)| Violation::new("c17.panic", "group_shares", format!("group_shares panicked on honest lines at {}: {}", loc, msg)))?;
            let want = BASE64_STANDARD.encode(g.key);
            if d >= g.t as usize {
                if res.as_deref() != Some(want.as_str()) {
                    return Err(Violation::new("c17.group_key", if res.is_none() { "none_at_threshold" } else { "other_key" }, format!("group {} (t={}, epoch {:?}): {} distinct shares arrived but group_shares returned {:?} instead of the clients' key", gi, g.t, g.epoch, d, res)));
                }
                saw_some = true;
                ctx.stats.probe("group_key_recovered");
                // genuine shares at CHOSEN points: whoever holds t shares can compute the share at any point; a
                // client may also simply have drawn it. Points with bit 128 set (12451 of the field's elements)
                // and the pair (x, x + 2^128) are the ones a 128-bit shortcut gets wrong.
                if g.t >= 2 && g.t <= 40 && ctx.ch.chance(1, 2) {
                    let parsed: Vec<(Vec<u8>, layout::PShare)> = lines.iter().filter_map(|l| BASE64_STANDARD.decode(l).ok()).filter_map(|b| layout::parse_share(&b).map(|p| (b, p))).collect();
                    let mut by_x: BTreeMap<BigUint, usize> = BTreeMap::new();
                    for (i, (_, p)) in parsed.iter().enumerate() {
                        by_x.entry(p.x.clone()).or_insert(i);
                    }
                    let base: Vec<usize> = by_x.values().copied().take(g.t as usize).collect();
                    if base.len() == g.t as usize {
                        let pm = shamir_big::p();
                        let k = parsed[base[0]].1.ys.len();
                        let polys: Vec<Vec<BigUint>> = (0..k).map(|j| shamir_big::interpolate(&base.iter().map(|&i| (parsed[i].1.x.clone(), parsed[i].1.ys[j].clone())).collect::<Vec<_>>(), &pm)).collect();
                        let two128 = BigUint::from(1u8) << 128;
                        let small = BigUint::from(1 + ctx.ch.draw(12_000));
                        let craft = |x: &BigUint| -> String {
                            let (bytes, p0) = &parsed[base[0]];
                            let mut b = bytes.clone();
                            let s0 = p0.offs[0];
                            b[s0..s0 + 24].copy_from_slice(&shamir_big::to_le24(x));
                            for j in 0..k {
                                let y = shamir_big::eval(&polys[j], x, &pm);
                                b[s0 + 24 * (j + 1)..s0 + 24 * (j + 2)].copy_from_slice(&shamir_big::to_le24(&y));
                            }
                            BASE64_STANDARD.encode(&b)
                        };
                        let hi = &two128 + &small;
                        let sets: Vec<(&str, Vec<String>)> = vec![
                            ("one share at a point >= 2^128", { let mut v: Vec<String> = base[1..].iter().map(|&i| BASE64_STANDARD.encode(&parsed[i].0)).collect(); v.push(craft(&hi)); v }),
                            ("shares at x and x + 2^128", { let mut v: Vec<String> = base[2..].iter().map(|&i| BASE64_STANDARD.encode(&parsed[i].0)).collect(); v.push(craft(&small)); v.push(craft(&hi)); v }),
                        ];
                        for (what, set) in sets {
                            let xs: BTreeSet<BigUint> = set.iter().filter_map(|l| BASE64_STANDARD.decode(l).ok()).filter_map(|b| layout::parse_share(&b)).map(|p| p.x).collect();
                            if xs.len() < g.t as usize {
                                continue; // the chosen point coincided with a dealt one
                            }
                            let perm = ctx.ch.permutation(set.len());
                            let j2 = perm.iter().map(|&i| set[i].clone()).collect::<Vec<_>>().join("\n");
                            let r = guarded(|| star_wasm::group_shares(&j2, &g.epoch)).map_err(|(loc, msg)| Violation::new("c17.panic", "group_shares", format!("{} {}", loc, msg)))?;
                            if r.as_deref() != Some(want.as_str()) {
                                return Err(Violation::new("c17.group_key", "chosen_point", format!("group {} (t={}): {} genuine shares with distinct points ({}) did not yield the clients' key: {:?}", gi, g.t, set.len(), what, r)));
                            }
                            ctx.stats.probe("group_key_recovered_with_chosen_points");
                        }
                    }
                }
                // another epoch never yields the clients' key
                // an unrelated epoch and the NEIGHBOURS of the clients' epoch (whitespace added or
                // trimmed, case changed, a byte appended)
                let mut others: Vec<String> = vec![EPOCHS.iter().find(|e| **e != g.epoch).unwrap().to_string()];
                others.push(format!("{} ", g.epoch));
                others.push(format!(" {}", g.epoch));
                others.push(format!("{}\n", g.epoch));
                others.push(g.epoch.trim().to_string());
                others.push(g.epoch.to_uppercase());
                others.push(format!("{}\u{0}", g.epoch));
                others.retain(|o| o != &g.epoch);
                for other in others {
                    let r2 = guarded(|| star_wasm::group_shares(&joined, &other)).map_err(|(loc, msg)| Violation::new("c17.panic", "group_shares", format!("{} {}", loc, msg)))?;
                    if r2.as_deref() == Some(want.as_str()) {
                        return Err(Violation::new("c17.wrong_epoch", "wrong_epoch", format!("group_shares with epoch {:?} returned the key of clients who used epoch {:?}", other, g.epoch)));
                    }
                    ctx.stats.probe("wrong_epoch_checked");
                }
            } else {
                if res.is_some() {
                    return Err(Violation::new("c17.group_subthreshold", "some_below_threshold", format!("group {} (t={}): only {} distinct shares arrived but group_shares returned a key", gi, g.t, d)));
                }
                saw_none = true;
                ctx.stats.probe("subthreshold_none");
            }
        }
        // a mix in which no measurement reaches its threshold
        let sub: Vec<(&usize, &Vec<String>)> = inbox.iter().filter(|(gi, l)| distinct(l) < groups[**gi].t as usize).collect();
        if sub.len() >= 2 {
            let mut lines: Vec<String> = Vec::new();
            for (_, l) in &sub {
                lines.extend(l.iter().cloned());
            }
            let perm = ctx.ch.permutation(lines.len());
            let joined = perm.iter().map(|&i| lines[i].clone()).collect::<Vec<_>>().join("\n");
            for e in [groups[*sub[0].0].epoch.clone(), groups[*sub[1].0].epoch.clone()] {
                let r = guarded(|| star_wasm::group_shares(&joined, &e)).map_err(|(loc, msg)| Violation::new("c17.panic", "group_shares", format!("{} {}", loc, msg)))?;
                if r.is_some() {
                    return Err(Violation::new("c17.group_subthreshold", "some_for_subthreshold_mix", "a mix of sub-threshold shares of several measurements yielded a key"));
                }
            }
            ctx.stats.probe("subthreshold_mix_none");
        }
        if saw_some && saw_none {
            ctx.stats.nontrivial = true;
        }
        Ok(())
    }
    fn real_components(&self) -> Vec<&'static str> {
        vec!["star_wasm::{create_share, group_shares} (native rlib)", "sta_rs::{MessageGenerator::share_with_local_randomness, Share::from_bytes, share_recover, derive_ske_key}", "base64"]
    }
    fn stub_components(&self) -> Vec<&'static str> {
        vec!["network", "OS entropy source", "application-level grouping by measurement (provenance)", "JS/WASM boundary (the crate is run natively, wasm-bindgen glue is not exercised)"]
    }
    fn assumptions(&self) -> Vec<&'static str> {
        vec!["malformed lines are C09's subject"]
    }
    fn key_probes(&self) -> Vec<&'static str> {
        vec!["create_share_outputs_checked", "group_key_recovered", "subthreshold_none", "wrong_epoch_checked", "subthreshold_mix_none", "core_share_mixed_in"]
    }
}
