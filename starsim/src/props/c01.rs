//! C01 — threshold recovery (DESIGN.md §4 C01). World A; transport faults
//! drop / dup / reorder / delay only (no corruption), so equality is exact.
use crate::choices::{hex_short, mix};
use crate::ev;
use crate::kernel::{Ctx, NetCfg, Violation};
use crate::models::layout;
use crate::runner::Property;
use crate::worlds::a::{AOracle, GenCfg, RandSrc, WorldA};
use num_bigint::BigUint;
use sta_rs::{derive_ske_key, load_bytes, share_recover, Message};
use std::collections::{BTreeMap, BTreeSet};

pub struct C01;

#[derive(Default)]
pub struct Oracle {
    /// group -> recovered key seed seen so far
    pub seed: BTreeMap<usize, Vec<u8>>,
    /// group -> number of delivered reports at the last attempt
    last_attempt: BTreeMap<usize, usize>,
    pub revealed: BTreeSet<usize>,
}

pub fn delivered_by_group(w: &WorldA) -> BTreeMap<usize, Vec<usize>> {
    let mut m: BTreeMap<usize, Vec<usize>> = BTreeMap::new();
    for (i, d) in w.delivered.iter().enumerate() {
        m.entry(w.origin(d).group).or_default().push(i);
    }
    m
}

/// parse expected plaintext framing independently: len|measurement [len|aux]
pub fn parse_plain(p: &[u8]) -> Option<(Vec<u8>, Option<Vec<u8>>)> {
    let m = load_bytes(p)?;
    let rest = &p[4 + m.len()..];
    if rest.is_empty() {
        return Some((m.to_vec(), None));
    }
    let a = load_bytes(rest)?;
    if rest.len() != 4 + a.len() {
        return None;
    }
    Some((m.to_vec(), Some(a.to_vec())))
}

impl Oracle {
    fn attempt(&mut self, ctx: &mut Ctx, w: &WorldA, force: bool) -> Result<(), Violation> {
        let by_group = delivered_by_group(w);
        for (gid, idxs) in by_group {
            let g = &w.groups[gid];
            if !force && self.last_attempt.get(&gid) == Some(&idxs.len()) {
                continue;
            }
            self.last_attempt.insert(gid, idxs.len());
            // distinct share points as the independent parser reads them from the wire bytes
            let mut by_x: BTreeMap<BigUint, Vec<usize>> = BTreeMap::new();
            for &i in &idxs {
                let pr = layout::parse_report(&w.delivered[i].bytes).ok_or_else(|| {
                    Violation::new("c01.decode", "parser", format!("honest report {:?} does not follow the documented layout", w.delivered[i].id))
                })?;
                by_x.entry(pr.share.x.clone()).or_default().push(i);
            }
            let t = g.threshold as usize;
            let d = by_x.len();
            let dup_present = idxs.len() > d;
            ctx.stats.state(mix(mix(t as u64, (d.min(t + 2) as i64 - t as i64 + 8) as u64), dup_present as u64));
            if d < t {
                // The aggregator learns how many DISTINCT reports a bucket holds only by trying. The failed
                // attempt is a fault of its own: it must leave nothing behind that colours the next bucket's
                // recovery on this thread (whether it fails as it should is C02's business).
                if !idxs.is_empty() && ctx.ch.chance(1, 2) {
                    let shares: Vec<_> = idxs.iter().filter_map(|&i| Message::from_bytes(&w.delivered[i].bytes)).map(|m| m.share).collect();
                    if share_recover(&shares).is_err() {
                        ctx.stats.fault("failed_recovery_attempt_below_threshold");
                    }
                }
                continue;
            }
            // ---- draw a selection: t distinct points, then surplus/repeats, then permute
            let xs: Vec<&BigUint> = by_x.keys().collect();
            let perm = ctx.ch.permutation(xs.len());
            let mut sel: Vec<usize> = Vec::new();
            for &pi in perm.iter().take(t) {
                let copies = &by_x[xs[pi]];
                sel.push(copies[ctx.ch.index(copies.len())]);
            }
            let strict_subset = d > t;
            let n_extra = match ctx.ch.draw(4) {
                0 => 0,
                1 => 1,
                2 => ctx.ch.index(t + 2),
                _ => idxs.len(),
            };
            let mut has_repeat = false;
            let mut has_surplus = false;
            for _ in 0..n_extra {
                let i = idxs[ctx.ch.index(idxs.len())];
                let x = &layout::parse_report(&w.delivered[i].bytes).unwrap().share.x;
                if sel.iter().any(|&j| &layout::parse_report(&w.delivered[j].bytes).unwrap().share.x == x) {
                    has_repeat = true;
                } else {
                    has_surplus = true;
                }
                sel.push(i);
            }
            let p2 = ctx.ch.permutation(sel.len());
            let sel: Vec<usize> = p2.iter().map(|&k| sel[k]).collect();
            let natural = sel.windows(2).all(|p| p[0] < p[1]);
            // ---- the aggregator decodes from wire bytes and recovers
            let mut shares = Vec::new();
            for &i in &sel {
                let m = Message::from_bytes(&w.delivered[i].bytes).ok_or_else(|| {
                    Violation::new("c01.decode", "from_bytes", format!("Message::from_bytes rejected honest report {:?} ({}B)", w.delivered[i].id, w.delivered[i].bytes.len()))
                })?;
                shares.push(m.share);
            }
            ev!(ctx, "  group {} t={} distinct={} delivered={} selection={:?}", gid, t, d, idxs.len(), sel);
            let rec = share_recover(&shares);
            let commune = match rec {
                Ok(c) => c,
                Err(e) => {
                    return Err(Violation::new(
                        "c01.recover_ok",
                        "recover_err",
                        format!("share_recover failed ({}) for group {} (t={}, m={}, e={}) on a selection of {} reports holding {} distinct points (repeat={}, surplus={}): {:?}", e, gid, t, hex_short(&g.measurement), hex_short(&g.epoch), sel.len(), t.max(1), has_repeat, has_surplus, sel),
                    ));
                }
            };
            let seed = commune.get_message();
            if let Some(prev) = self.seed.get(&gid) {
                if prev != &seed {
                    return Err(Violation::new("c01.seed", "seed_changed", format!("two selections of group {} recovered different messages {} vs {}", gid, hex_short(prev), hex_short(&seed))));
                }
            } else {
                self.seed.insert(gid, seed.clone());
            }
            self.revealed.insert(gid);
            if ctx.ch.chance(1, 8) {
                // API misuse right before the valid derivation: a key buffer of the wrong length for another
                // seed (a panic the aggregator survives); it must not colour the derivation that follows
                let len = *ctx.ch.pick(&[0usize, 15, 17, 32]);
                let mut wrong = vec![0u8; len];
                let other: Vec<u8> = seed.iter().map(|b| b ^ 0x5a).collect();
                let epoch = g.epoch.clone();
                let refused = crate::runner::guarded(move || derive_ske_key(&other, &epoch, &mut wrong)).is_err();
                ctx.stats.fault("wrong_length_key_buffer");
                if refused {
                    ctx.stats.probe("wrong_length_key_buffer_refused_then_valid_derivation");
                }
            }
            // ---- reports whose share lies at a CHOSEN point of the same sharing (bit 128 set; the pair
            // x / x + 2^128): a client may have drawn such a point, and they are as good as any other
            if (2..=40).contains(&t) && ctx.ch.chance(1, 6) {
                let mut seen: BTreeSet<BigUint> = BTreeSet::new();
                let base_rep: Vec<layout::PReport> = idxs.iter().filter_map(|&i| layout::parse_report(&w.delivered[i].bytes)).filter(|r| seen.insert(r.share.x.clone())).take(t).collect();
                if base_rep.len() == t {
                    let base: Vec<layout::PShare> = base_rep.iter().map(|r| r.share.clone()).collect();
                    let small = BigUint::from(1 + ctx.ch.draw(12_000));
                    let hi = (BigUint::from(1u8) << 128) + &small;
                    let at = |x: &BigUint| layout::encode_report(&layout::PReport { share: layout::genuine_share_at(&base, x), ..base_rep[0].clone() });
                    for (what, extra, skip) in [("one report at a point >= 2^128", vec![at(&hi)], 1usize), ("reports at x and x + 2^128", vec![at(&small), at(&hi)], 2)] {
                        let mut wires: Vec<Vec<u8>> = base_rep[skip..].iter().map(layout::encode_report).collect();
                        wires.extend(extra);
                        let xs: BTreeSet<BigUint> = wires.iter().filter_map(|b| layout::parse_report(b)).map(|r| r.share.x).collect();
                        if xs.len() < t {
                            continue;
                        }
                        let perm = ctx.ch.permutation(wires.len());
                        let mut shares = Vec::new();
                        for &pi in &perm {
                            let m = Message::from_bytes(&wires[pi]).ok_or_else(|| Violation::new("c01.decode", "from_bytes", format!("Message::from_bytes rejected a genuine report whose share point was chosen ({})", what)))?;
                            shares.push(m.share);
                        }
                        match share_recover(&shares) {
                            Ok(c) if c.get_message() == seed => ctx.stats.probe("recovered_with_chosen_points"),
                            Ok(_) => return Err(Violation::new("c01.seed", "seed_changed", format!("group {} (t={}): {} genuine reports with distinct points ({}) recovered another message", gid, t, t, what))),
                            Err(e) => return Err(Violation::new("c01.recover_ok", "recover_err_chosen_point", format!("share_recover failed ({}) for group {} (t={}) on {} genuine reports with distinct points ({})", e, gid, t, t, what))),
                        }
                    }
                }
            }
            let mut key = vec![0u8; 16];
            derive_ske_key(&seed, &g.epoch, &mut key);
            // ---- every delivered report of the group decrypts to what its client supplied
            for &i in &idxs {
                let dlv = &w.delivered[i];
                let m = Message::from_bytes(&dlv.bytes).ok_or_else(|| Violation::new("c01.decode", "from_bytes", format!("Message::from_bytes rejected honest report {:?}", dlv.id)))?;
                let plain = m.ciphertext.decrypt(&key, "star_encrypt");
                let client = &w.clients[w.origin(dlv).client];
                let parsed = parse_plain(&plain);
                let ok = match &parsed {
                    Some((pm, pa)) => pm == &g.measurement && pa == &client.aux,
                    None => false,
                };
                if !ok {
                    return Err(Violation::new(
                        "c01.plaintext",
                        "plaintext",
                        format!(
                            "report {:?} of client {} (group {}, t={}) decrypts to {:?}, client supplied measurement {} aux {:?}",
                            dlv.id,
                            client.idx,
                            gid,
                            t,
                            parsed.as_ref().map(|(m, a)| (hex_short(m), a.as_ref().map(|a| hex_short(a)))),
                            hex_short(&g.measurement),
                            client.aux.as_ref().map(|a| hex_short(a))
                        ),
                    ));
                }
                match &client.aux {
                    None => ctx.stats.probe("aux_none_verified"),
                    Some(a) if a.is_empty() => ctx.stats.probe("aux_empty_verified"),
                    Some(a) if a.len() + g.measurement.len() + 8 > 166 => ctx.stats.probe("payload_multiblock_verified"),
                    Some(_) => ctx.stats.probe("aux_short_verified"),
                }
            }
            ctx.stats.probe("recoveries");
            if strict_subset {
                ctx.stats.probe("recovered_from_strict_subset");
            }
            if has_repeat {
                ctx.stats.probe("recovered_with_repeats");
            }
            if has_surplus {
                ctx.stats.probe("recovered_with_surplus");
            }
            if !natural {
                ctx.stats.probe("recovered_from_permuted");
            }
            if dup_present {
                ctx.stats.probe("bucket_had_duplicate_delivery");
            }
            if t == 1 {
                ctx.stats.probe("threshold_1");
            }
            if t >= 32 {
                ctx.stats.probe("threshold_ge_32");
            }
            if g.measurement.is_empty() {
                ctx.stats.probe("empty_measurement");
            }
            if g.epoch.is_empty() {
                ctx.stats.probe("empty_epoch");
            }
            match g.src {
                RandSrc::Local => ctx.stats.probe("src_local"),
                RandSrc::Arbitrary(_) => ctx.stats.probe("src_arbitrary"),
                RandSrc::Oprf { .. } => ctx.stats.probe("src_oprf"),
            }
            if !natural && (strict_subset || has_repeat || has_surplus) {
                ctx.stats.nontrivial = true;
            }
        }
        Ok(())
    }
}

impl AOracle for Oracle {
    fn on_tick(&mut self, ctx: &mut Ctx, w: &WorldA) -> Result<(), Violation> {
        self.attempt(ctx, w, false)
    }
    fn at_quiescence(&mut self, ctx: &mut Ctx, w: &WorldA) -> Result<(), Violation> {
        self.attempt(ctx, w, true)?;
        // revealed set == ideal functionality over delivered distinct reports
        let by_group = delivered_by_group(w);
        for g in &w.groups {
            let mut xs = BTreeSet::new();
            if let Some(idxs) = by_group.get(&g.id) {
                for &i in idxs {
                    xs.insert(layout::parse_report(&w.delivered[i].bytes).unwrap().share.x);
                }
            }
            let ideal = xs.len() >= g.threshold as usize;
            if ideal != self.revealed.contains(&g.id) {
                return Err(Violation::new("c01.revealed_set", "revealed_set", format!("group {} ideal-revealed={} but aggregator revealed={}", g.id, ideal, !ideal)));
            }
            if ideal {
                ctx.stats.probe("groups_revealed");
            } else {
                ctx.stats.probe("groups_below_threshold");
            }
        }
        Ok(())
    }
}

pub fn netcfg() -> NetCfg {
    NetCfg { drop: 120, dup: 150, replay: 60, misdeliver: 0, corrupt: 0, min_latency_us: 1_000, jitter_us: 600_000, long_delay: 80, long_delay_us: 3_000_000 }
}

impl Property for C01 {
    fn id(&self) -> &'static str {
        "C01"
    }
    fn world(&self) -> &'static str {
        "A (STAR reporting)"
    }
    fn rule(&self) -> &'static str {
        "one run = one seeded world-A history: 1..5(8) groups (measurement, epoch, threshold, randomness source) with client counts around the threshold, reports cross the simulated transport (drop/dup/reorder/delay/replay, swarm-enabled per run); at drawn moments and at quiescence the aggregator decodes a drawn selection (t distinct points + repeats + surplus, permuted) and recovers. non-trivial = a recovery succeeded from a permuted selection that was a strict subset or contained repeats/surplus; distinct = distinct event-log digests among those runs; states = (t, distinct-t, dup-present) bucket-fill cells"
    }
    fn runs(&self, thorough: bool) -> u64 {
        if thorough { 150_000 } else { 3_000 }
    }
    fn run(&self, ctx: &mut Ctx) -> Result<(), Violation> {
        let mut gen = GenCfg::standard(ctx.thorough);
        // the same measurement also reported under another threshold / epoch (with the randomness
        // server as source the client randomness is then IDENTICAL across thresholds)
        gen.relatives = ctx.ch.chance(1, 2);
        gen.entropy_burst = 30;
        gen.entropy_failure = 15;
        // size-dependent paths: every 16th run carries payloads beyond 64 KiB; in thorough every
        // 40th run has a threshold above 256 (needs as many clients)
        if ctx.ch.chance(1, 24) {
            gen.meas_lens = vec![11, 70_000];
            gen.aux_kinds = vec![-1, 4, 66_000];
            gen.max_clients_total = 24;
            gen.thresholds = vec![1, 2, 3];
            ctx.stats.probe("runs_with_payloads_over_64KiB");
        } else if ctx.thorough && ctx.ch.chance(1, 40) {
            gen.thresholds = vec![257, 300];
            gen.max_groups = 1;
            gen.max_clients_total = 320;
            gen.count_offsets = vec![0, 1, 2];
            gen.meas_lens = vec![11];
            gen.aux_kinds = vec![-1, 4];
            gen.sources = vec![0, 1];
            ctx.stats.probe("runs_with_threshold_over_256");
        }
        let mut w = WorldA::build(ctx, gen, netcfg(), true);
        let mut o = Oracle::default();
        w.run(ctx, &mut o)
    }
    fn real_components(&self) -> Vec<&'static str> {
        vec!["sta_rs::{MessageGenerator, Message::generate/to_bytes/from_bytes, share_recover, derive_ske_key, Ciphertext::decrypt, load_bytes}", "adss", "star-sharks", "ppoprf::{Server::new/eval, Client::blind/verify/unblind/finalize}", "strobe-rs", "curve25519-dalek", "serde_json", "bincode"]
    }
    fn stub_components(&self) -> Vec<&'static str> {
        vec!["network (starsim kernel)", "clock (discrete-event)", "OS entropy source behind getrandom (seeded per node)", "client driver", "library-level aggregator loop"]
    }
    fn assumptions(&self) -> Vec<&'static str> {
        vec!["two honest clients never draw the same 129-bit share point (probability 2^-128 per pair)", "sampling, not proof: a clean batch is evidence only", "independent layout parser (models/layout.rs) is correct"]
    }
    fn key_probes(&self) -> Vec<&'static str> {
        vec!["recovered_from_strict_subset", "recovered_with_repeats", "recovered_with_surplus", "recovered_from_permuted", "threshold_1", "threshold_ge_32", "aux_none_verified", "aux_empty_verified", "payload_multiblock_verified", "src_local", "src_arbitrary", "src_oprf", "empty_measurement", "empty_epoch", "bucket_had_duplicate_delivery"]
    }
}
