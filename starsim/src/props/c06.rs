//! C06 — secret sharing is textbook Shamir over GF(2^128+12451), per an
//! independent big-integer model (DESIGN.md §4 C06). World B, sharks layer.
use crate::ev;
use crate::kernel::{Ctx, Net, NetCfg, Violation};
use crate::models::{layout, shamir_big};
use crate::osrng::ScriptRng;
use crate::runner::Property;
use crate::worlds::b::{self, Delivery, DEALER0};
use ff::{Field, PrimeField};
use num_bigint::BigUint;
use num_traits::Zero;
use star_sharks::{Fp, Share, Sharks};
use std::collections::BTreeMap;
use std::convert::TryFrom;

pub struct C06;

fn fp_to_big(f: &Fp) -> BigUint {
    BigUint::from_bytes_le(f.to_repr().as_ref())
}

/// The field elements a stream of u64 words yields through Fp::random.
fn elements_of(words: &[u64]) -> (Vec<BigUint>, usize) {
    // returns (elements, rejected draws)
    let mut out = Vec::new();
    let mut pos = 0usize;
    let mut rejected = 0usize;
    while pos + 3 <= words.len() {
        // replay exactly the words of one accepted draw (possibly preceded by rejected triples)
        // (a bounded window is enough unless a draw was rejected more than 20 times in a row; then widen)
        let mut win = 64usize;
        let (e, used) = loop {
            let end = (pos + win).min(words.len());
            let mut r = ScriptRng::new(words[pos..end].to_vec(), 0);
            let e = Fp::random(&mut r);
            let used = r.words.len();
            if pos + used <= end || end == words.len() {
                break (e, used);
            }
            win *= 8;
        };
        if pos + used > words.len() {
            break; // ran into the tail: not part of the recorded stream
        }
        rejected += used / 3 - 1;
        pos += used;
        out.push(fp_to_big(&e));
    }
    (out, rejected)
}

const P_LIMBS: [u64; 3] = [12451, 0, 1];

fn adversarial_script(ctx: &mut Ctx) -> Vec<u64> {
    let mut s: Vec<u64> = Vec::new();
    let n = ctx.ch.index(6);
    for _ in 0..n {
        let triple: [u64; 3] = match ctx.ch.draw(12) {
            0 => [0, 0, 0],
            1 => [1, 0, 0],
            2 => P_LIMBS,                       // = p: rejected, redrawn
            3 => [12450, 0, 1],                 // p - 1
            4 => [12452, 0, 1],                 // p + 1: rejected
            5 => [u64::MAX, u64::MAX, u64::MAX], // masked to 129 bits, >= p: rejected
            6 => [u64::MAX, 0, 0],
            7 => [0, 1, 0],
            8 => [u64::MAX, u64::MAX, 0],
            9 => [0, 0, 1],
            10 => [0, 0, 0],
            _ => {
                let w = ctx.ch.draw(1 << 32);
                [w, w.rotate_left(17), 0]
            }
        };
        let reps = 1 + ctx.ch.index(3);
        for _ in 0..reps {
            s.extend_from_slice(&triple);
        }
    }
    s
}

fn boundary_element(ctx: &mut Ctx) -> (BigUint, bool) {
    // (value, in range?)
    let p = shamir_big::p();
    let one = BigUint::from(1u32);
    match ctx.ch.draw(14) {
        0 => (BigUint::zero(), true),
        1 => (one, true),
        2 => (&p - 1u32, true),
        3 => ((BigUint::from(1u32) << 64) - 1u32, true),
        4 => ((BigUint::from(1u32) << 64) + 1u32, true),
        5 => ((BigUint::from(1u32) << 128) - 1u32, true),
        6 => ((BigUint::from(1u32) << 128) + 1u32, true),
        7 => (BigUint::from(1u32) << 128, true),
        8 => (p.clone(), false),
        9 => (&p + 1u32, false),
        10 => ((BigUint::from(1u32) << 192) - 1u32, false),
        _ => {
            let b = ctx.ch.bytes(16);
            (BigUint::from_bytes_le(&b), true)
        }
    }
}

struct Dealt {
    x: BigUint,
    ys: Vec<BigUint>,
    bytes: Vec<u8>,
    via_gen: bool,
}

/// Thresholds around 2^16 (and one around 2^17): t+1 shares cannot be interpolated with big integers in
/// reasonable time, so the degree is tested from below instead. Twelve dealt points of a polynomial of degree
/// t-1 >= 11 interpolate to degree exactly 11 (a lower degree has probability 2^-128); a dealer whose
/// polynomial has any degree below 11 - constant, linear, (t-1) mod 2^16 for t just above 2^16 - shows at
/// once. The dealer must also have consumed at least 128 bits of the stream per coefficient, and the value at
/// x = 1 must be the secret plus the sum of the elements the stream yielded (order-free, so no assumption on
/// which coefficient gets which draw).
fn huge_threshold(ctx: &mut Ctx, p: &BigUint) -> Result<(), Violation> {
    let t = *ctx.ch.pick(&[65_535usize, 65_536, 65_537, 65_538, 65_540, 65_546, 131_073]);
    let k = 1 + ctx.ch.index(2);
    ctx.stats.probe("threshold_around_2_16");
    let secret_vals: Vec<BigUint> = (0..k).map(|_| BigUint::from_bytes_le(&ctx.ch.bytes(16))).collect();
    let mut secret = Vec::new();
    for v in &secret_vals {
        secret.extend_from_slice(&shamir_big::to_le24(v));
    }
    let tail = ctx.ch.draw(1 << 32);
    ev!(ctx, "dealing t={} k={} (degree tested from below)", t, k);
    let mut rng = ScriptRng::new(vec![], tail);
    let mut evaluator = Sharks(t as u32).dealer_rng(&secret, &mut rng).map_err(|e| Violation::new("c06.refuse", "refused_valid", format!("dealer refused a valid secret at t={}: {}", t, e)))?;
    let words = rng.words.clone();
    if words.len() < 2 * k * (t - 1) {
        return Err(Violation::new("c06.coeff_source", "draw_count", format!("dealing {} polynomials of threshold {} consumed {} 64-bit words of the supplied random source: fewer than 128 bits per non-constant coefficient", k, t, words.len())));
    }
    let n = 12usize;
    let mut pts: Vec<(BigUint, Vec<BigUint>)> = Vec::new();
    for i in 0..n {
        let sh = if i % 3 == 2 { evaluator.gen(&mut rng) } else { evaluator.next().expect("iterator is endless") };
        let b = Vec::from(&sh);
        let (x, ys) = layout::parse_s(&b).ok_or_else(|| Violation::new("c06.eval", "layout", "dealt share does not follow the 24-byte layout"))?;
        if ys.len() != k {
            return Err(Violation::new("c06.eval", "y_count", format!("dealt share has {} y-values for a secret of {} elements", ys.len(), k)));
        }
        if x.is_zero() {
            return Err(Violation::new("c06.x_zero", "gen_x_zero", "a dealt share has x = 0"));
        }
        pts.push((x, ys));
    }
    for j in 0..k {
        let pj: Vec<(BigUint, BigUint)> = pts.iter().map(|(x, ys)| (x.clone(), ys[j].clone())).collect();
        let co = shamir_big::interpolate(&pj, p);
        let d = shamir_big::degree(&co).unwrap_or(0);
        if d < n - 1 {
            return Err(Violation::new("c06.eval", "degree_too_low", format!("{} shares dealt at threshold {} lie on a polynomial of degree {}: the sharing polynomial {} does not have degree t-1", n, t, d, j)));
        }
    }
    let (elems, _) = elements_of(&words);
    if elems.len() >= k * (t - 1) {
        // the first share dealt is the one at x = 1
        let mut want = BigUint::zero();
        for v in secret_vals.iter().chain(elems[..k * (t - 1)].iter()) {
            want = (want + v) % p;
        }
        let mut have = BigUint::zero();
        for y in &pts[0].1 {
            have = (have + y) % p;
        }
        if pts[0].0 == BigUint::from(1u32) && want == have {
            ctx.stats.probe("huge_threshold_value_at_1_matches_stream");
        } else {
            ctx.stats.probe("huge_threshold_value_at_1_not_comparable");
        }
    }
    ctx.stats.nontrivial = false;
    Ok(())
}

impl Property for C06 {
    fn id(&self) -> &'static str {
        "C06"
    }
    fn world(&self) -> &'static str {
        "B (dealing, sharks layer): dealer with a scripted random source, share holders, combiner"
    }
    fn rule(&self) -> &'static str {
        "one run = one dealing: threshold t (1..64, thorough ..600), secret of 0..6(16) elements with boundary values (0, 1, p-1, 2^64+-1, 2^128+-1, out of range), the dealer's random source a recorded scripted stream (adversarial prefix: zero limbs, p, p+-1, all-ones, repeats; then seeded uniform words); shares from Evaluator::next and Evaluator::gen cross the wire (24-byte layout) under drop/dup/reorder/truncate; the polynomials are INFERRED by big-integer interpolation from t+1 shares and compared with the secret and with the multiset of elements the stream yielded; every share is re-evaluated with big-integer Horner; the combiner recovers from drawn selections. non-trivial = t >= 2, k >= 1 and at least one recovery from a permuted selection with surplus/duplicates plus one refusal; states = (t, k, script kind) cells"
    }
    fn runs(&self, thorough: bool) -> u64 {
        if thorough { 60_000 } else { 2_500 }
    }
    fn run(&self, ctx: &mut Ctx) -> Result<(), Violation> {
        let p = shamir_big::p();
        if ctx.ch.chance(1, 50) {
            return huge_threshold(ctx, &p);
        }
        if ctx.ch.chance(1, 10) {
            // the public get_evaluator takes any list of polynomials (highest degree first), not only the
            // equal-length ones the dealer builds: every y is the big-integer Horner value of ITS polynomial
            let n = 1 + ctx.ch.index(4);
            let mut polys_fp: Vec<Vec<star_sharks::Fp>> = Vec::new();
            let mut polys_big: Vec<Vec<BigUint>> = Vec::new();
            for _ in 0..n {
                let len = 1 + ctx.ch.index(5);
                let co: Vec<u64> = (0..len).map(|_| 1 + ctx.ch.draw(1000)).collect();
                polys_fp.push(co.iter().map(|c| star_sharks::Fp::from(*c)).collect());
                polys_big.push(co.iter().rev().map(|c| BigUint::from(*c)).collect()); // constant term first
            }
            let mut ev = star_sharks::get_evaluator(polys_fp);
            for _ in 0..3 {
                let sh = ev.next().expect("iterator is endless");
                let (x, ys) = layout::parse_s(&Vec::from(&sh)).ok_or_else(|| Violation::new("c06.eval", "layout", "dealt share does not follow the 24-byte layout"))?;
                for (j, y) in ys.iter().enumerate() {
                    if *y != shamir_big::eval(&polys_big[j], &x, &p) {
                        return Err(Violation::new("c06.eval", "ragged_polynomials", format!("get_evaluator over {} polynomials of different lengths: y[{}] at x={} is not the value of polynomial {}", n, j, x, j)));
                    }
                }
            }
            ctx.stats.probe("get_evaluator_with_polynomials_of_different_lengths");
        }
        let ts: Vec<u32> = if ctx.thorough { vec![1, 2, 2, 3, 3, 4, 5, 8, 13, 32, 64, 65, 128, 600] } else { vec![1, 2, 2, 3, 3, 4, 5, 8, 13, 32, 64] };
        let mut t = *ctx.ch.pick(&ts) as usize;
        if !ctx.thorough && ctx.ch.chance(1, 80) {
            t = 260; // thresholds that do not fit one byte
        }
        if t > 256 {
            ctx.stats.probe("threshold_over_256");
        }
        let k = if t > 100 { 1 } else { *ctx.ch.pick(&[0usize, 1, 1, 1, 2, 2, 3, 6, 16]) };
        let k = if t >= 32 { k.min(2) } else { k };
        let mut secret_vals: Vec<BigUint> = Vec::new();
        let mut in_range = true;
        let allow_bad = ctx.ch.chance(1, 6);
        for _ in 0..k {
            let (v, ok) = boundary_element(ctx);
            if !ok && !allow_bad {
                secret_vals.push(BigUint::from(7u32));
                continue;
            }
            in_range &= ok;
            secret_vals.push(v);
        }
        let mut secret = Vec::new();
        for v in &secret_vals {
            secret.extend_from_slice(&shamir_big::to_le24(v));
        }
        let adversarial = ctx.ch.chance(1, 2);
        let script = if adversarial { adversarial_script(ctx) } else { vec![] };
        let tail = ctx.ch.draw(1 << 32);
        ev!(ctx, "dealing t={} k={} in_range={} script_words={} ", t, k, in_range, script.len());
        let mut rng = ScriptRng::new(script, tail);
        let sharks = Sharks(t as u32);
        let dealer = sharks.dealer_rng(&secret, &mut rng);
        let mut evaluator = match dealer {
            Ok(e) => {
                if !in_range {
                    return Err(Violation::new("c06.refuse", "accepted_out_of_range", format!("dealer accepted a secret with an element >= p: {:?}", secret_vals)));
                }
                e
            }
            Err(e) => {
                if in_range {
                    return Err(Violation::new("c06.refuse", "refused_valid", format!("dealer refused a valid secret: {}", e)));
                }
                ctx.stats.probe("out_of_range_secret_refused");
                return Ok(());
            }
        };
        let words_dealing = rng.words.clone();
        // ---- a second dealer of another secret, alive on the same thread while the first one hands out its
        // shares (and pulled from in between): two dealers are two sharings, whatever the order of use
        let mut decoy = if ctx.ch.chance(1, 3) {
            let t2 = 1 + ctx.ch.index(5);
            let k2 = 1 + ctx.ch.index(3);
            let mut s2 = Vec::new();
            for i in 0..k2 {
                s2.extend_from_slice(&shamir_big::to_le24(&BigUint::from(1000u32 + i as u32)));
            }
            let mut r2 = ScriptRng::new(vec![], tail ^ 0xdec0);
            ctx.stats.probe("second_live_dealer");
            Sharks(t2 as u32).dealer_rng(&s2, &mut r2).ok().map(|e| (e, r2))
        } else {
            None
        };
        if let Some((d, _)) = decoy.as_mut() {
            let _ = d.next();
        }
        // ---- shares: t+1 from next() for inference, then a drawn mix of next()/gen()
        let mut dealt: Vec<Dealt> = Vec::new();
        let mut take = |sh: Share, via_gen: bool| -> Result<Dealt, Violation> {
            let bytes = Vec::from(&sh);
            let (x, ys) = layout::parse_s(&bytes).ok_or_else(|| Violation::new("c06.eval", "layout", "dealt share does not follow the 24-byte layout"))?;
            if ys.len() != k || bytes.len() != 24 * (k + 1) {
                return Err(Violation::new("c06.eval", "y_count", format!("dealt share has {} y-values for a secret of {} elements", ys.len(), k)));
            }
            if x.is_zero() {
                return Err(Violation::new("c06.x_zero", if via_gen { "gen_x_zero" } else { "next_x_zero" }, format!("a dealt share has x = 0: its y-values ARE the secret ({:?})", ys)));
            }
            Ok(Dealt { x, ys, bytes, via_gen })
        };
        // the FIRST pull from the fresh dealer may go through an iterator adaptor as well
        {
            let first = match ctx.ch.draw(6) {
                0 => evaluator.nth(0),
                1 => evaluator.by_ref().step_by(2).next(),
                2 => evaluator.by_ref().skip(1).next(),
                3 => evaluator.by_ref().take(1).last(),
                _ => evaluator.next(),
            };
            dealt.push(take(first.expect("iterator is endless"), false)?);
        }
        // then plain next() until t+1 DISTINCT points are there for the inference
        let mut guard = 0;
        while dealt.iter().map(|d| d.x.clone()).collect::<std::collections::BTreeSet<_>>().len() < t + 1 {
            let sh = evaluator.next().expect("iterator is endless");
            dealt.push(take(sh, false)?);
            guard += 1;
            if guard > t + 8 {
                return Err(Violation::new("c06.eval", "iterator_stuck", "the sequential dealer keeps returning shares at x values it already handed out"));
            }
        }
        {
            // inference uses the first t+1 distinct points: move them to the front
            let mut seen = std::collections::BTreeSet::new();
            let mut front = Vec::new();
            let mut rest = Vec::new();
            for d in dealt.drain(..) {
                if front.len() < t + 1 && seen.insert(d.x.clone()) {
                    front.push(d);
                } else {
                    rest.push(d);
                }
            }
            front.extend(rest);
            dealt = front;
        }
        let n_more = ctx.ch.index(t + 4);
        for _ in 0..n_more {
            if let Some((d, r2)) = decoy.as_mut() {
                if ctx.ch.chance(1, 3) {
                    let _ = if ctx.ch.chance(1, 2) { d.next() } else { Some(d.gen(r2)) };
                }
            }
            if ctx.ch.chance(2, 3) {
                let sh = evaluator.gen(&mut rng);
                dealt.push(take(sh, true)?);
                ctx.stats.probe("shares_via_gen");
            } else {
                // the sequential dealer is an Iterator: shares may be pulled through its adaptors
                let sh = match ctx.ch.draw(5) {
                    0 => evaluator.nth(0),
                    1 => {
                        let k = ctx.ch.index(4);
                        evaluator.nth(k)
                    }
                    2 => evaluator.by_ref().skip(1 + ctx.ch.index(3)).next(),
                    3 => evaluator.by_ref().step_by(2).nth(1),
                    _ => evaluator.next(),
                };
                ctx.stats.probe("shares_via_iterator_adaptors");
                dealt.push(take(sh.expect("iterator is endless"), false)?);
            }
        }
        // ---- infer the polynomials from the first t+1 shares
        let mut polys: Vec<Vec<BigUint>> = Vec::new();
        for j in 0..k {
            let pts: Vec<(BigUint, BigUint)> = dealt[..t + 1].iter().map(|d| (d.x.clone(), d.ys[j].clone())).collect();
            let co = shamir_big::interpolate(&pts, &p);
            if let Some(d) = shamir_big::degree(&co) {
                if d > t - 1 {
                    return Err(Violation::new("c06.eval", "degree_too_high", format!("polynomial {} through t+1 dealt shares has degree {} > t-1 = {}: shares are not evaluations of one degree-(t-1) polynomial", j, d, t - 1)));
                }
            }
            if co[0] != secret_vals[j] {
                return Err(Violation::new("c06.eval", "constant_term", format!("polynomial {} has constant term {} but the secret element is {}", j, co[0], secret_vals[j])));
            }
            polys.push(co[..t].to_vec());
        }
        // ---- every coefficient is a separate draw of the stream
        let (elems, rejected) = elements_of(&words_dealing);
        if rejected > 0 {
            ctx.stats.probe("stream_words_rejected_ge_p");
        }
        let mut want: BTreeMap<BigUint, i64> = BTreeMap::new();
        for e in &elems {
            *want.entry(e.clone()).or_insert(0) += 1;
        }
        let mut have: BTreeMap<BigUint, i64> = BTreeMap::new();
        for co in &polys {
            for c in &co[1..] {
                *have.entry(c.clone()).or_insert(0) += 1;
            }
        }
        // how many coefficients ARE stream elements (multiset intersection): a dealer that converts stream bytes
        // another way shares none with `want`; one that reads the stream as Fp::random does but skips, repeats or
        // replaces a draw shares most
        // (only values of at least 2^96 count: 0, 1 and other small scripted values come out the same under
        // more than one way of converting bytes to elements)
        let big = BigUint::from(1u8) << 96;
        let common: i64 = want.iter().filter(|(k, _)| **k >= big).map(|(k, n)| (*n).min(*have.get(k).unwrap_or(&0))).sum();
        if want == have && t >= 3 {
            // The multisets agree, so the dealer reads the stream the way this check does, polynomial after
            // polynomial. A zero that the stream yielded strictly INSIDE a polynomial's run of t-1 draws (neither
            // its first nor its last draw, whichever end is the leading coefficient) is a zero inner coefficient
            // and must not lower the degree: a dealer that drops such a draw instead of using it hands out a
            // polynomial of degree t-2.
            for (j, co) in polys.iter().enumerate() {
                let chunk = &elems[j * (t - 1)..(j + 1) * (t - 1)];
                let mut a: Vec<&BigUint> = chunk.iter().collect();
                let mut b: Vec<&BigUint> = co[1..].iter().collect();
                a.sort();
                b.sort();
                if a != b {
                    continue; // draws are not consumed polynomial by polynomial: no statement
                }
                let ends_nonzero = !chunk[0].is_zero() && !chunk[t - 2].is_zero();
                if ends_nonzero && shamir_big::degree(co).unwrap_or(0) < t - 1 {
                    return Err(Violation::new("c06.eval", "degree_too_low", format!("polynomial {} has degree {} < t-1 = {} although neither the first nor the last of its {} draws was zero (a zero drawn in between is an inner coefficient, not a reason to shorten the polynomial)", j, shamir_big::degree(co).unwrap_or(0), t - 1, t - 1)));
                }
            }
        }
        if want != have && common > 0 && (t - 1) * k >= 2 {
            let n_have: i64 = have.values().sum();
            return Err(Violation::new(
                "c06.coeff_source",
                if n_have as usize != elems.len() { "draw_count" } else { "draw_values" },
                format!("{} of the {} non-constant coefficients are elements the supplied random source yielded during dealing, the others are not (the source yielded {} elements; t={}, k={}): a draw was skipped, replaced or used twice", common, n_have, elems.len(), t, k),
            ));
        }
        if want != have {
            let n_have: i64 = have.values().sum();
            // The comparison above reads the stream through Fp::random. A dealer that turns stream bytes
            // into elements some OTHER way is not thereby wrong, so before reporting, the clause is
            // re-decided without that assumption: dealing is a deterministic function of the stream, every
            // coefficient changes when the stream changes, and (on fresh unscripted streams) all
            // non-constant coefficients are pairwise distinct and non-zero.
            let redeal = |script: Vec<u64>, tail: u64| -> Option<Vec<Vec<BigUint>>> {
                let mut r = ScriptRng::new(script, tail);
                let mut ev = Sharks(t as u32).dealer_rng(&secret, &mut r).ok()?;
                let mut pts: Vec<(BigUint, Vec<BigUint>)> = Vec::new();
                for _ in 0..t + 1 {
                    let b = Vec::from(&ev.next()?);
                    let (x, ys) = layout::parse_s(&b)?;
                    pts.push((x, ys));
                }
                let mut out = Vec::new();
                for j in 0..k {
                    let pj: Vec<(BigUint, BigUint)> = pts.iter().map(|(x, ys)| (x.clone(), ys[j].clone())).collect();
                    out.push(shamir_big::interpolate(&pj, &p)[..t].to_vec());
                }
                Some(out)
            };
            let same = redeal(Vec::new(), tail);
            let other = redeal(Vec::new(), tail ^ 0x5DEECE66D);
            let plain = redeal(Vec::new(), tail);
            let mut independent_ok = same.is_some() && same == plain;
            if let (Some(a), Some(b)) = (&same, &other) {
                let mut all: Vec<&BigUint> = Vec::new();
                for (pa, pb) in a.iter().zip(b.iter()) {
                    for (ca, cb) in pa[1..].iter().zip(pb[1..].iter()) {
                        if ca == cb || ca.is_zero() {
                            independent_ok = false;
                        }
                        all.push(ca);
                    }
                }
                let n = all.len();
                all.sort();
                all.dedup();
                if all.len() != n {
                    independent_ok = false;
                }
            } else {
                independent_ok = false;
            }
            if independent_ok && n_have as usize == k * (t - 1) {
                ctx.stats.probe("coefficients_not_read_via_Fp_random_but_fresh_per_draw");
            } else {
            return Err(Violation::new(
                "c06.coeff_source",
                if n_have as usize != elems.len() { "draw_count" } else { "draw_values" },
                format!("the {} non-constant coefficients of the {} polynomials are not exactly the {} field elements the supplied random source yielded during dealing (t={}, k={})", n_have, k, elems.len(), t, k),
            ));
            }
        }
        if elems.iter().any(|e| e.is_zero()) {
            ctx.stats.probe("stream_yielded_zero_coefficient");
        }
        // ---- every share re-evaluated with big-integer Horner
        for d in &dealt {
            for j in 0..k {
                let y = shamir_big::eval(&polys[j], &d.x, &p);
                if y != d.ys[j] {
                    return Err(Violation::new("c06.eval", if d.via_gen { "gen_value" } else { "next_value" }, format!("share at x={} has y[{}]={} but big-integer Horner evaluation gives {}", d.x, j, d.ys[j], y)));
                }
            }
        }
        ctx.stats.probe("dealings_verified");
        ctx.stats.state(crate::choices::mix(crate::choices::mix(t as u64, k as u64), adversarial as u64));

        // ---- the shares travel to the combiner
        let mut cfg = NetCfg { drop: 150, dup: 200, replay: 0, misdeliver: 0, corrupt: 150, min_latency_us: 500, jitter_us: 100_000, long_delay: 0, long_delay_us: 0 };
        if !ctx.ch.chance(2, 3) {
            cfg.drop = 0;
        }
        if !ctx.ch.chance(2, 3) {
            cfg.corrupt = 0;
        }
        let mut net = Net::new(cfg);
        let msgs: Vec<(u32, Vec<u8>)> = dealt.iter().enumerate().map(|(i, d)| (DEALER0 + i as u32, d.bytes.clone())).collect();
        let mut inbox: Vec<(Share, bool)> = Vec::new(); // (decoded, truncated?)
        b::transport(ctx, &mut net, &msgs, 200_000, |ctx, d: &Delivery| {
            let mut bytes = d.bytes.clone();
            let mut truncated = false;
            if d.flagged_corrupt {
                // truncate: every prefix length reachable
                let cut = ctx.ch.index(bytes.len() + 1);
                if cut < bytes.len() {
                    bytes.truncate(cut);
                    ctx.stats.fault("truncate");
                    truncated = bytes.len() / 24 != d.bytes.len() / 24;
                }
            }
            match Share::try_from(&bytes[..]) {
                Ok(s) => inbox.push((s, truncated)),
                Err(_) => {
                    if bytes.len() >= 24 {
                        return Err(Violation::new("c06.recover", "decode", "a prefix of an honest share with a complete x was rejected"));
                    }
                    ctx.stats.probe("undecodable_truncation_dropped");
                }
            }
            Ok(())
        })?;
        // a holder hands in the point at x = 0 (never dealt, but a genuine point of every polynomial:
        // its y-values are the secret's elements); recovery must cope with it like with any other share
        if k >= 1 && ctx.ch.chance(1, 4) {
            let mut b = vec![0u8; 24];
            b.extend_from_slice(&secret);
            if let Ok(s) = Share::try_from(&b[..]) {
                let pos = ctx.ch.index(inbox.len() + 1);
                inbox.insert(pos, (s, false));
                ctx.stats.probe("crafted_share_at_x_zero_in_inbox");
            }
        }
        // genuine points at chosen x (computed from the inferred polynomials with big integers): values
        // 2^128 apart, limb boundaries, p-1. A holder may hand in any genuine point.
        let mut crafted_pair: Option<(usize, usize)> = None;
        if k >= 1 && t >= 2 && ctx.ch.chance(1, 3) {
            let two128: BigUint = BigUint::from(1u32) << 128usize;
            let small = BigUint::from(1u32 + ctx.ch.draw(12000) as u32); // x and x + 2^128 are both < p
            let xs: Vec<BigUint> = vec![small.clone(), &small + &two128, BigUint::from(1u32) << 64usize, two128.clone(), &p - 1u32];
            let mut idx: Vec<usize> = Vec::new();
            for x in xs {
                let mut b = shamir_big::to_le24(&x).to_vec();
                for j in 0..k {
                    b.extend_from_slice(&shamir_big::to_le24(&shamir_big::eval(&polys[j], &x, &p)));
                }
                if let Ok(s) = Share::try_from(&b[..]) {
                    inbox.push((s, false));
                    idx.push(inbox.len() - 1);
                }
            }
            if idx.len() >= 2 {
                crafted_pair = Some((idx[0], idx[1]));
            }
            ctx.stats.probe("crafted_genuine_points_at_boundary_x");
        }
        // a selection that needs BOTH x and x + 2^128 to reach the threshold
        if let Some((a, b)) = crafted_pair {
            let mut sel: Vec<Share> = vec![inbox[a].0.clone(), inbox[b].0.clone()];
            let mut seen: Vec<BigUint> = sel.iter().map(|s| fp_to_big(&s.x)).collect();
            for (s, trunc) in inbox.iter() {
                if sel.len() >= t {
                    break;
                }
                let x = fp_to_big(&s.x);
                if !*trunc && s.y.len() == k && !seen.contains(&x) {
                    seen.push(x);
                    sel.push(s.clone());
                }
            }
            if sel.len() == t {
                match sharks.recover(&sel) {
                    Ok(bytes) if bytes == secret => ctx.stats.probe("recovered_from_points_2_128_apart"),
                    Ok(_) => return Err(Violation::new("c06.recover", "wrong_secret", "recovery from t genuine points including x and x + 2^128 returned another secret")),
                    Err(e) => return Err(Violation::new("c06.recover", "recover_err", format!("t = {} genuine shares with distinct x (two of them exactly 2^128 apart) were refused: {}", t, e))),
                }
            }
        }
        // ---- combiner: drawn selections
        let rounds = if ctx.thorough { 5 } else { 3 };
        let mut did_recover = false;
        let mut did_refuse = false;
        for _ in 0..rounds {
            if inbox.is_empty() {
                break;
            }
            let n = match ctx.ch.draw(4) {
                0 => inbox.len(),
                1 => ctx.ch.index(t.min(inbox.len())) + 0,
                2 => (t + ctx.ch.index(3)).min(inbox.len()),
                _ => 1 + ctx.ch.index(inbox.len()),
            };
            let mut sel: Vec<usize> = Vec::new();
            for _ in 0..n {
                sel.push(ctx.ch.index(inbox.len())); // with repetition: duplicates arise here too
            }
            let shares: Vec<Share> = sel.iter().map(|&i| inbox[i].0.clone()).collect();
            let mut xs: Vec<BigUint> = shares.iter().map(|s| fp_to_big(&s.x)).collect();
            let total = xs.len();
            xs.sort();
            xs.dedup();
            let distinct = xs.len();
            let lens: Vec<usize> = shares.iter().map(|s| s.y.len()).collect();
            let unequal = lens.iter().any(|l| *l != lens[0]);
            let res = sharks.recover(&shares);
            // recover takes any iterable of shares: what it answers must not depend on HOW the same shares are
            // handed over (a slice, or a lazy adaptor whose size_hint says little)
            let lazy = match ctx.ch.draw(4) {
                0 => sharks.recover(shares.iter().filter(|_| true)),
                1 => sharks.recover(shares.iter().skip_while(|_| false)),
                2 => sharks.recover(shares.chunks(2).flatten()),
                _ => sharks.recover(shares.iter().chain(std::iter::empty())),
            };
            if lazy != res {
                return Err(Violation::new("c06.recover", "iterator_dependent", format!("recover answers {} for a slice of {} shares ({} distinct x, t={}) and {} for the same shares behind a lazy iterator", if res.is_ok() { "Ok" } else { "Err" }, total, distinct, t, if lazy.is_ok() { "Ok" } else { "Err" })));
            }
            ev!(ctx, "  selection of {} shares, {} distinct x, unequal lengths={} -> {}", total, distinct, unequal, if res.is_ok() { "Ok" } else { "Err" });
            if unequal || distinct < t || shares.is_empty() {
                if res.is_ok() {
                    return Err(Violation::new("c06.refuse", if unequal { "unequal_length_accepted" } else { "insufficient_accepted" }, format!("recover returned Ok from {} shares with {} distinct x (t={}), unequal lengths={}", total, distinct, t, unequal)));
                }
                did_refuse = true;
                ctx.stats.probe(if unequal { "refused_unequal_lengths" } else { "refused_insufficient" });
            } else {
                // all shares have lens[0] y-values; if that is k they are complete shares
                let kk = lens[0];
                match res {
                    Err(e) => {
                        return Err(Violation::new("c06.recover", "recover_err", format!("recover failed ({}) with {} distinct x >= t={} (total {} shares)", e, distinct, t, total)));
                    }
                    Ok(bytes) => {
                        // independent Lagrange at 0 over the first t distinct shares, per y-slot
                        let mut seen: Vec<BigUint> = Vec::new();
                        let mut firsts: Vec<&Share> = Vec::new();
                        for s in &shares {
                            let x = fp_to_big(&s.x);
                            if !seen.contains(&x) {
                                seen.push(x);
                                firsts.push(s);
                            }
                        }
                        let mut expect = Vec::new();
                        for j in 0..kk {
                            let pts: Vec<(BigUint, BigUint)> = firsts[..t].iter().map(|s| (fp_to_big(&s.x), fp_to_big(&s.y[j]))).collect();
                            expect.extend_from_slice(&shamir_big::to_le24(&shamir_big::lagrange_at_zero(&pts, &p)));
                        }
                        if bytes != expect {
                            return Err(Violation::new("c06.recover", "lagrange_mismatch", format!("recover disagrees with big-integer Lagrange interpolation at 0 (t={}, {} shares, {} distinct)", t, total, distinct)));
                        }
                        if bytes != secret[..24 * kk] {
                            return Err(Violation::new("c06.recover", "wrong_secret", format!("recover returned {} bytes that are not the secret (t={}, {} shares, {} distinct)", bytes.len(), t, total, distinct)));
                        }
                        did_recover = true;
                        ctx.stats.probe("recoveries_matching_bigint_lagrange");
                        if total > distinct {
                            ctx.stats.probe("recovered_with_duplicates");
                        }
                        if distinct > t {
                            ctx.stats.probe("recovered_with_surplus");
                        }
                    }
                }
            }
        }
        if t >= 2 && k >= 1 && did_recover && did_refuse {
            ctx.stats.nontrivial = true;
        }
        if t >= 32 {
            ctx.stats.probe("threshold_ge_32");
        }
        Ok(())
    }
    fn real_components(&self) -> Vec<&'static str> {
        vec!["star_sharks::{Sharks::dealer_rng, Evaluator::next/gen, Sharks::recover, interpolate, random_polynomial, Share::try_from, Vec::from(&Share)}", "ff / ff_derive field arithmetic (Fp)"]
    }
    fn stub_components(&self) -> Vec<&'static str> {
        vec!["supplied random source (scripted recording stream)", "network (drop/dup/reorder/truncate)", "big-integer Shamir model (num-bigint)"]
    }
    fn assumptions(&self) -> Vec<&'static str> {
        vec!["Fp::random's mapping from stream words to field elements and Fp::to_repr are trusted (used to read what the stream yielded)", "scripts are finite prefixes followed by uniform words (an endless zero stream would make any rejection sampler loop forever)"]
    }
    fn key_probes(&self) -> Vec<&'static str> {
        vec!["dealings_verified", "shares_via_gen", "stream_yielded_zero_coefficient", "stream_words_rejected_ge_p", "out_of_range_secret_refused", "recoveries_matching_bigint_lagrange", "recovered_with_duplicates", "recovered_with_surplus", "refused_insufficient", "refused_unequal_lengths", "threshold_ge_32"]
    }
}
