//! C14 — the randomness server answers iff the tag is registered and
//! unpunctured, under any history (DESIGN.md §4 C14). World C in full.
//! C12 — PPOPRF output depends only on (server key, tag, input) — shares the
//! world and the exchange oracle below.
use crate::choices::hex_short;
use crate::kernel::{Ctx, NetCfg, Violation};
use crate::models::ggm_ref;
use crate::runner::Property;
use crate::worlds::c::{CCfg, COracle, Exchange, WorldC};
use ppoprf::ppoprf as pp;
use std::collections::{BTreeMap, BTreeSet};

pub struct C14;
pub struct C12;

#[derive(Default)]
pub struct ExchangeOracle {
    pub check_c12: bool,
    /// (key id, tag, input) -> finalised output
    outputs: BTreeMap<(u64, u8, Vec<u8>), [u8; 32]>,
    by_output: BTreeMap<[u8; 32], (u64, u8, Vec<u8>)>,
    blinded_seen: BTreeSet<[u8; 32]>,
    /// input -> the library's own unblinded input point
    input_points: BTreeMap<Vec<u8>, [u8; 32]>,
    /// the clients' output buffer, reused from request to request (never re-zeroed), as an
    /// application that keeps one result buffer would
    out_buf: [u8; 32],
}

impl COracle for ExchangeOracle {
    fn on_request(&mut self, ctx: &mut Ctx, _w: &WorldC, client: usize, input: &[u8], _md: u8, blinded: &pp::Point) -> Result<(), Violation> {
        if !self.check_c12 {
            return Ok(());
        }
        let b = *blinded.as_bytes();
        if !self.blinded_seen.insert(b) {
            return Err(Violation::new("c12.blind_repeat", "blind_repeat", format!("client {}: the blinded request point for input {} was already sent in this history: requests are linkable", client, hex_short(input))));
        }
        let _ = input;
        ctx.stats.probe("blinded_points_checked");
        Ok(())
    }
    fn on_exchange(&mut self, ctx: &mut Ctx, w: &WorldC, x: &Exchange) -> Result<(), Violation> {
        let e: pp::Evaluation = serde_json::from_slice(x.eval_json).map_err(|e| Violation::new("c.exchange", "json", e.to_string()))?;
        let pk = pp::ServerPublicKey::load_from_bincode(x.pk_bytes).map_err(|e| Violation::new("c.exchange", "pk", e.to_string()))?;
        if w.cfg.verifiable {
            if !pp::Client::verify(&pk, x.blinded, &e, x.md) {
                return Err(Violation::new("c13.incomplete", "honest_rejected", format!("an honest verifiable evaluation (tag {}, key {}) was rejected after crossing the wire as JSON/bincode", x.md, x.key_id)));
            }
            ctx.stats.probe("honest_proofs_verified");
        }
        let un = pp::Client::unblind(&e.output, x.r);
        // finalise into the REUSED buffer (it still holds the previous request's output)
        if ctx.ch.chance(1, 8) {
            // API misuse right before the valid call: an output buffer of the wrong length, for some other
            // input. The documented reaction is a panic; the caller survives it and finalises properly.
            let len = *ctx.ch.pick(&[0usize, 16, 31, 33, 64]);
            let mut wrong = vec![0u8; len];
            let other_input = [x.input, &b"-refused"[..]].concat();
            let md = x.md;
            let un2 = un.clone();
            let refused = crate::runner::guarded(move || pp::Client::finalize(&other_input, md, &un2, &mut wrong)).is_err();
            ctx.stats.fault("wrong_length_finalize_buffer");
            if refused {
                ctx.stats.probe("wrong_length_finalize_refused_then_valid_call");
            }
        }
        pp::Client::finalize(x.input, x.md, &un, &mut self.out_buf);
        let out = self.out_buf;
        if !self.check_c12 {
            return Ok(());
        }
        // The unblinded INPUT point as the library itself defines it: H(input) = r^-1 * (r * H(input)),
        // obtained with the library's own unblind on the client's blinded request. (Deliberately not
        // compared with a re-implementation of hash-to-group: a change of its domain-separation label
        // would not break the property.) It must be a function of the input, injective, and differ
        // from the blinded request.
        let h_lib = pp::Client::unblind(x.blinded, x.r);
        if h_lib.as_bytes() == x.blinded.as_bytes() {
            return Err(Violation::new("c12.blind_is_input", "blind_is_input", format!("client {}: the blinded request equals the unblinded input point", x.client)));
        }
        match self.input_points.get(x.input) {
            Some(prev) if prev != h_lib.as_bytes() => {
                return Err(Violation::new("c12.input_point_not_function", "input_point_not_function", format!("client {}: two requests for input {} were built on different input points: the request depends on something besides the input and the blinding", x.client, hex_short(x.input))));
            }
            Some(_) => {}
            None => {
                if let Some((other, _)) = self.input_points.iter().find(|(_, v)| *v == h_lib.as_bytes()) {
                    return Err(Violation::new("c12.input_point_collision", "input_point_collision", format!("inputs {} and {} are mapped to the same input point", hex_short(other), hex_short(x.input))));
                }
                self.input_points.insert(x.input.to_vec(), *h_lib.as_bytes());
            }
        }
        if ggm_ref::hash_to_group(x.input).compress().to_bytes() == *h_lib.as_bytes() {
            ctx.stats.probe("input_point_matches_independent_hash_to_group");
        }
        // unblinded result == the server's evaluation of the unblinded input point
        if let Some(sv) = w.servers.iter().find(|s| s.model.key_id == x.key_id) {
            if !sv.model.punctured.contains(&x.md) {
                if let Ok(direct) = sv.server.eval(&h_lib, x.md, false) {
                    if direct.output.as_bytes() != un.as_bytes() {
                        return Err(Violation::new("c12.unblind_mismatch", "unblind_mismatch", format!("client {}: the unblinded result differs from the server's evaluation of the unblinded input point for tag {} (key {})", x.client, x.md, x.key_id)));
                    }
                    ctx.stats.probe("unblinded_equals_direct_evaluation");
                }
                // A client that blinds with a scalar of ITS OWN choosing, through the public conversions
                // (CurveScalar: From<RistrettoScalar> / From<[u8; 32]>, Point: From<&[u8]>): request r'*H(input),
                // unblind with CurveScalar::from(r'). Same key, tag and input, so the same finalised output.
                if ctx.ch.chance(1, 4) {
                    use curve25519_dalek::{ristretto::CompressedRistretto, scalar::Scalar};
                    let mut rb = [0u8; 32];
                    rb.copy_from_slice(&ctx.ch.bytes(32));
                    let r2 = Scalar::from_bytes_mod_order(rb);
                    if let (Some(h), false) = (CompressedRistretto(*h_lib.as_bytes()).decompress(), r2 == Scalar::ZERO) {
                        let p2 = pp::Point::from(&(r2 * h).compress().to_bytes()[..]);
                        if let Ok(e2) = sv.server.eval(&p2, x.md, false) {
                            let cs = if ctx.ch.chance(1, 2) { pp::CurveScalar::from(r2) } else { pp::CurveScalar::from(r2.to_bytes()) };
                            let un2 = pp::Client::unblind(&e2.output, &cs);
                            let mut out2 = [0u8; 32];
                            pp::Client::finalize(x.input, x.md, &un2, &mut out2);
                            if out2 != out {
                                return Err(Violation::new("c12.not_function", "own_scalar_client", format!("client {}: for (key {}, tag {}, input {}) a client that blinds with a scalar of its own (public conversions) finalises to another output than a client that used Client::blind", x.client, x.key_id, x.md, hex_short(x.input))));
                            }
                            ctx.stats.probe("own_scalar_client_agrees");
                        }
                    }
                }
            }
        }
        if ggm_ref::finalize(x.input, x.md, un.as_bytes()) == out {
            ctx.stats.probe("finalize_matches_documented_hash");
        }
        let k = (x.key_id, x.md, x.input.to_vec());
        if let Some(prev) = self.outputs.get(&k) {
            if prev != &out {
                return Err(Violation::new("c12.not_function", "not_function", format!("two requests for (key {}, tag {}, input {}) finalised to different outputs: the output depends on the blinding or the request", x.key_id, x.md, hex_short(x.input))));
            }
            ctx.stats.probe("same_triple_same_output");
        } else {
            if let Some(other) = self.by_output.get(&out) {
                if other != &k {
                    return Err(Violation::new(
                        "c12.collision",
                        if other.0 != k.0 { "across_servers" } else if other.1 != k.1 { "across_tags" } else { "across_inputs" },
                        format!("(key {}, tag {}, input {}) and (key {}, tag {}, input {}) finalise to the same output", other.0, other.1, hex_short(&other.2), k.0, k.1, hex_short(&k.2)),
                    ));
                }
            }
            self.by_output.insert(out, k.clone());
            self.outputs.insert(k, out);
            ctx.stats.probe("distinct_triples");
            ctx.stats.state(crate::choices::mix(w.servers.len() as u64, crate::choices::mix(w.cfg.tags.len() as u64, crate::choices::mix(x.md as u64, x.input.len() as u64))));
        }
        Ok(())
    }
    fn at_quiescence(&mut self, ctx: &mut Ctx, _w: &WorldC) -> Result<(), Violation> {
        if self.check_c12 {
            let n_same = ctx.stats.probes.get("same_triple_same_output").copied().unwrap_or(0);
            let n_dist = ctx.stats.probes.get("distinct_triples").copied().unwrap_or(0);
            if n_same >= 1 && n_dist >= 2 {
                ctx.stats.nontrivial = true;
            }
        }
        Ok(())
    }
}

fn draw_tags(ctx: &mut Ctx, max: usize) -> Vec<u8> {
    let n = 1 + ctx.ch.index(max);
    let mut tags: Vec<u8> = Vec::new();
    let start = *ctx.ch.pick(&[0u8, 0, 1, 17, 100, 250]);
    let mode = ctx.ch.draw(3);
    for i in 0..n {
        let t = match mode {
            0 => start.wrapping_add(i as u8),
            1 => start.wrapping_add((i * 37) as u8),
            _ => ctx.ch.draw(256) as u8,
        };
        if !tags.contains(&t) {
            tags.push(t);
        }
    }
    if ctx.ch.chance(1, 4) && !tags.contains(&255) {
        tags.push(255);
    }
    if ctx.ch.chance(1, 4) {
        tags.reverse();
    }
    tags
}

/// the list handed to Server::new: the registered tags in the drawn (not necessarily ascending)
/// order, sometimes with one tag listed twice
pub fn registration_list(ctx: &mut Ctx, tags: &[u8]) -> Vec<u8> {
    let mut l = tags.to_vec();
    if ctx.ch.chance(1, 6) && !l.is_empty() {
        let t = l[ctx.ch.index(l.len())];
        let pos = ctx.ch.index(l.len() + 1);
        l.insert(pos, t);
    }
    l
}

pub fn inputs(ctx: &mut Ctx) -> Vec<Vec<u8>> {
    let n = 2 + ctx.ch.index(3);
    let mut v: Vec<Vec<u8>> = Vec::new();
    for i in 0..n {
        let len = *ctx.ch.pick(&[0usize, 1, 5, 16, 64, 300]);
        let mut b = ctx.ch.bytes(len);
        if let Some(x) = b.first_mut() {
            *x = i as u8;
        }
        if !v.contains(&b) {
            v.push(b);
        }
    }
    // every 15th run: two inputs beyond 64 KiB that agree on their first 65 600 bytes
    if ctx.ch.chance(1, 15) {
        let mut a = ctx.ch.bytes(70_000);
        a[0] = 0xEE;
        let mut b = a.clone();
        b[69_999] ^= 0x01;
        b[65_700] ^= 0x80;
        v.push(a);
        v.push(b);
        ctx.stats.probe("runs_with_inputs_over_64KiB");
    }
    // two different inputs of EQUAL length (history-dependent client state keyed on length/address shows here)
    let mut twin = v[0].clone();
    if twin.is_empty() {
        twin = vec![0x11; 4];
        v.push(vec![0x22; 4]);
    }
    let last = twin.len() - 1;
    twin[last] ^= 0x5a;
    if !v.contains(&twin) {
        v.push(twin);
    }
    v
}

impl Property for C14 {
    fn id(&self) -> &'static str {
        "C14"
    }
    fn world(&self) -> &'static str {
        "C (randomness service): primary with epoch timer, replicas, durable snapshots, clients with skewed clocks"
    }
    fn rule(&self) -> &'static str {
        "one run = a world-C history: 1..3 servers (primary rotates epochs on a simulated timer, punctures the ended epoch and pushes its exported key state to replicas over a transport that drops, duplicates, delays and reorders - so replicas can import an OLDER state after a newer one), 2..8 clients with skewed clocks whose requests can arrive after the puncture, durable snapshots with lost writes, crash + restart from the (possibly stale) snapshot or with a brand-new key, clone-and-diverge, manual export/import, punctures of boundary / unregistered / adjacent / already punctured tags. After every operation the outcome is compared with a per-instance reference model (registered, punctured, answer table, public key) and a sweep over pooled points x all registered tags checks answered-iff-live, answers unchanged, public key unchanged; an importer must equal the exporter at export time. non-trivial = a puncture, an import and a request-after-puncture or stale restore all happened; states = (key, punctured set) cells"
    }
    fn runs(&self, thorough: bool) -> u64 {
        if thorough { 150_000 } else { 4_000 }
    }
    fn run(&self, ctx: &mut Ctx) -> Result<(), Violation> {
        let tags = draw_tags(ctx, if ctx.thorough { 10 } else { 6 });
        let epoch_len_us = 1_000_000 * (1 + ctx.ch.draw(3600));
        let n_epochs = tags.len() as u64;
        let registration = crate::props::c14::registration_list(ctx, &tags);
        let cfg = CCfg {
            registration,
            n_servers: 1 + ctx.ch.index(3),
            n_clients: 2 + ctx.ch.index(if ctx.thorough { 7 } else { 4 }),
            tags,
            epoch_len_us,
            rotate: ctx.ch.chance(3, 4),
            replicate: ctx.ch.chance(2, 3),
            crash: ctx.ch.chance(2, 3),
            ops: ctx.ch.chance(3, 4),
            damaged_sync: ctx.ch.chance(1, 3),
            verifiable: ctx.ch.chance(1, 3),
            requests_per_client: 1 + ctx.ch.index(4),
            inputs: inputs(ctx),
            horizon_us: epoch_len_us * (n_epochs + 1),
        };
        let mut net = NetCfg { drop: 100, dup: 150, replay: 50, misdeliver: 0, corrupt: 0, min_latency_us: 2_000, jitter_us: epoch_len_us / 2, long_delay: 150, long_delay_us: 2 * epoch_len_us };
        if !ctx.ch.chance(2, 3) {
            net.drop = 0;
        }
        if !ctx.ch.chance(2, 3) {
            net.dup = 0;
            net.replay = 0;
        }
        if !ctx.ch.chance(3, 4) {
            net.long_delay = 0;
        }
        let mut w = WorldC::build(ctx, cfg, net)?;
        let mut o = ExchangeOracle::default();
        w.run(ctx, &mut o)?;
        let p = |k: &str| ctx.stats.probes.get(k).copied().unwrap_or(0);
        if p("punctures") > 0 && p("imports") > 0 && (p("request_arrived_after_puncture") > 0 || p("restored_from_stale_snapshot") > 0 || p("replica_regressed_to_older_state") > 0) {
            ctx.stats.nontrivial = true;
        }
        Ok(())
    }
    fn real_components(&self) -> Vec<&'static str> {
        vec!["ppoprf::ppoprf::Server::{new, eval, puncture, get_public_key, get_private_key, set_private_key, Clone}", "ppoprf::ggm", "Client::{blind, verify, unblind, finalize}", "bincode key-state (feature key-sync)", "serde_json Point/Evaluation"]
    }
    fn stub_components(&self) -> Vec<&'static str> {
        vec!["network", "clock + epoch timer (discrete-event)", "durable snapshot storage", "OS entropy source", "epoch-rotation / replication loop (modelled on ppoprf/examples/server.rs, which is NOT executed)", "per-instance reference model"]
    }
    fn assumptions(&self) -> Vec<&'static str> {
        vec!["key-state blobs are never corrupted in these runs (corruption of blobs has no model; receivers' robustness is C09's)", "no liveness claim: the library has no retry/timeout logic"]
    }
    fn key_probes(&self) -> Vec<&'static str> {
        vec!["punctures", "imports", "request_arrived_after_puncture", "restored_from_stale_snapshot", "replica_regressed_to_older_state", "clones", "clone_divergence_checked", "punctured_unregistered_tag", "repeated_puncture_refused", "restart_with_new_key", "refused_unregistered_tag", "refused_punctured_tag", "repeat_answers_identical", "sweeps"]
    }
}

impl Property for C12 {
    fn id(&self) -> &'static str {
        "C12"
    }
    fn world(&self) -> &'static str {
        "C (randomness service): several servers, many clients and requests, dup/reorder/delay"
    }
    fn rule(&self) -> &'static str {
        "one run = a world-C history without punctures: 1..3 independent servers (own keys), 2..8 clients issuing several requests each for a small pool of inputs and tags, transport with dup/reorder/delay (a duplicated request is simply a second evaluation). History oracle: (key, tag, input) -> finalised output is a function across all clients, requests and blindings and injective across triples; the unblinded input point (obtained with the library's own unblind from the client's blinded request) is a function of the input, injective, and differs from the blinded request; each unblinded result equals the server's evaluation of that point; all blinded points in the history are pairwise distinct. Agreement with an independent hash-to-group / finalisation is recorded as a probe only (a change of a domain-separation label would not break the property). non-trivial = a triple was evaluated at least twice with different blindings and >= 2 distinct triples were seen; states = (servers, tags, tag, input length) cells"
    }
    fn runs(&self, thorough: bool) -> u64 {
        if thorough { 200_000 } else { 3_000 }
    }
    fn run(&self, ctx: &mut Ctx) -> Result<(), Violation> {
        let tags = draw_tags(ctx, 4);
        // every 10th run is a LONG history (hundreds of blindings / evaluations in one process):
        // pooled, cached or cyclic client/server state shows only there
        let long = ctx.ch.chance(1, 20);
        if long {
            ctx.stats.probe("long_histories");
        }
        let registration = crate::props::c14::registration_list(ctx, &tags);
        let cfg = CCfg {
            registration,
            n_servers: 1 + ctx.ch.index(3),
            n_clients: if long { 24 + ctx.ch.index(if ctx.thorough { 150 } else { 24 }) } else { 2 + ctx.ch.index(if ctx.thorough { 7 } else { 4 }) },
            tags,
            epoch_len_us: 1_000_000,
            rotate: false,
            replicate: ctx.ch.chance(1, 3),
            crash: false,
            ops: false,
            damaged_sync: false,
            verifiable: ctx.ch.chance(1, 2) && !long,
            requests_per_client: if long { 6 + ctx.ch.index(4) } else { 2 + ctx.ch.index(4) },
            inputs: inputs(ctx),
            horizon_us: 10_000_000,
        };
        let mut net = NetCfg { drop: 0, dup: 200, replay: 100, misdeliver: 0, corrupt: 0, min_latency_us: 2_000, jitter_us: 3_000_000, long_delay: 100, long_delay_us: 20_000_000 };
        if !ctx.ch.chance(2, 3) {
            net.dup = 0;
            net.replay = 0;
        }
        let mut w = WorldC::build(ctx, cfg, net)?;
        let mut o = ExchangeOracle { check_c12: true, ..Default::default() };
        w.run(ctx, &mut o)
    }
    fn real_components(&self) -> Vec<&'static str> {
        vec!["ppoprf::ppoprf::{Server::new/eval, Client::blind/verify/unblind/finalize}", "serde_json Point/Evaluation", "bincode public key"]
    }
    fn stub_components(&self) -> Vec<&'static str> {
        vec!["network", "clock", "OS entropy source (per client / server streams)", "independent hash-to-group and finalisation (harness)"]
    }
    fn assumptions(&self) -> Vec<&'static str> {
        vec!["replicas that imported the primary's state count as the same key", "chance collisions of 256-bit values are ignored"]
    }
    fn key_probes(&self) -> Vec<&'static str> {
        vec!["same_triple_same_output", "distinct_triples", "unblinded_equals_direct_evaluation", "blinded_points_checked", "exchanges_completed", "input_point_matches_independent_hash_to_group", "finalize_matches_documented_hash"]
    }
}
