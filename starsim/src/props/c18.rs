//! C18 — the reference aggregation server reveals exactly the measurements
//! with >= t reports (DESIGN.md §4 C18). World A with
//! star_test_utils::AggregationServer on a rayon pool of drawn size.
use crate::choices::hex_short;
use crate::ev;
use crate::kernel::{Ctx, NetCfg, Violation};
use crate::runner::{guarded, Property};
use crate::worlds::a::{AOracle, GenCfg, WorldA};
use sta_rs::Message;
use star_test_utils::AggregationServer;
use std::collections::BTreeMap;

pub struct C18;

type Canon = Vec<(Vec<u8>, Vec<Option<Vec<u8>>>)>;

fn run_server(ctx: &mut Ctx, t: u32, epoch: &str, msgs: &[Message], threads: usize) -> Result<Canon, Violation> {
    let pool = rayon::ThreadPoolBuilder::new().num_threads(threads).start_handler(|_| crate::runner::set_quiet(true)).build().map_err(|e| Violation::new("c18.setup", "pool", e.to_string()))?;
    let srv = AggregationServer::new(t, epoch);
    if t >= 2 && !msgs.is_empty() && ctx.ch.chance(1, 4) {
        // A refused collection first, on the SAME worker threads: buckets that reach the threshold in size but
        // hold one report replayed t times. The reference server refuses such a collection by panicking
        // (PossibleShareCollision, see assumptions); the operator survives that and submits the honest
        // collection next, whose result must not depend on what went before.
        let n_b = (1 + ctx.ch.index(2 * threads)).min(msgs.len());
        let mut refused: Vec<Message> = Vec::new();
        for b in 0..n_b {
            let i = (ctx.ch.index(msgs.len()) + b) % msgs.len();
            for _ in 0..t {
                refused.push(msgs[i].clone());
            }
        }
        if guarded(|| pool.install(|| srv.retrieve_outputs(&refused))).is_err() {
            ctx.stats.fault("refused_collection_before_honest_one");
        }
    }
    let out = guarded(|| pool.install(|| srv.retrieve_outputs(msgs))).map_err(|(loc, msg)| Violation::new("c18.panic", "retrieve_outputs", format!("retrieve_outputs panicked on honest reports at {}: {}", loc, msg)))?;
    // canonical form: HashMap iteration order and rayon scheduling are not under simulator control
    let mut canon: Canon = out
        .into_iter()
        .map(|o| {
            let mut aux: Vec<Option<Vec<u8>>> = o.aux.iter().map(|a| a.as_ref().map(|a| a.as_vec())).collect();
            aux.sort();
            (o.x.as_vec(), aux)
        })
        .collect();
    canon.sort();
    Ok(canon)
}

struct Oracle {
    checks: u32,
}

impl Oracle {
    fn check(&mut self, ctx: &mut Ctx, w: &WorldA) -> Result<(), Violation> {
        if w.groups.is_empty() || w.delivered.is_empty() {
            return Ok(());
        }
        let t = w.groups[0].threshold;
        let epoch = String::from_utf8(w.groups[0].epoch.clone()).expect("utf8 epochs");
        let msgs: Vec<Message> = w.delivered.iter().map(|d| Message::from_bytes(&d.bytes).expect("honest report decodes")).collect();
        // ideal functionality over the delivered reports (empty aux == absent aux, by construction of the reference server)
        let mut ideal_map: BTreeMap<usize, Vec<Option<Vec<u8>>>> = BTreeMap::new();
        for d in &w.delivered {
            let s = w.origin(d);
            let aux = w.clients[s.client].aux.clone().filter(|a| !a.is_empty());
            ideal_map.entry(s.group).or_default().push(aux);
        }
        let mut ideal: Canon = ideal_map
            .into_iter()
            .filter(|(_, v)| v.len() >= t as usize)
            .map(|(g, mut v)| {
                v.sort();
                (w.groups[g].measurement.clone(), v)
            })
            .collect();
        ideal.sort();
        let threads = 1 + ctx.ch.index(16);
        let got = run_server(ctx, t, &epoch, &msgs, threads)?;
        ev!(ctx, "  reference server: {} reports, t={}, pool={} -> {} outputs (ideal {})", msgs.len(), t, threads, got.len(), ideal.len());
        // compare
        let got_keys: Vec<&Vec<u8>> = got.iter().map(|g| &g.0).collect();
        for w2 in got_keys.windows(2) {
            if w2[0] == w2[1] {
                return Err(Violation::new("c18.duplicate_group", "duplicate_group", format!("measurement {} is output more than once", hex_short(w2[0]))));
            }
        }
        for (m, aux) in &ideal {
            match got.iter().find(|g| &g.0 == m) {
                None => return Err(Violation::new("c18.missing_group", "missing_group", format!("measurement {} was reported by {} >= t={} clients but is not in the output ({} reports, pool {})", hex_short(m), aux.len(), t, msgs.len(), threads))),
                Some(g) if &g.1 != aux => return Err(Violation::new("c18.aux_multiset", "aux_multiset", format!("measurement {}: output carries {} associated-data entries, clients attached {} (multisets differ)", hex_short(m), g.1.len(), aux.len()))),
                _ => {}
            }
        }
        for (m, _) in &got {
            if !ideal.iter().any(|i| &i.0 == m) {
                return Err(Violation::new("c18.extra_group", "extra_group", format!("measurement {} is output although fewer than t={} clients reported it", hex_short(m), t)));
            }
        }
        // same delivered set, another permutation and pool size: same canonical output
        let perm = ctx.ch.permutation(msgs.len());
        let msgs2: Vec<Message> = perm.iter().map(|&i| msgs[i].clone()).collect();
        let threads2 = 1 + ctx.ch.index(16);
        let got2 = run_server(ctx, t, &epoch, &msgs2, threads2)?;
        if got2 != got {
            return Err(Violation::new("c18.order_dependent", "order_dependent", format!("the output depends on the order of the reports or the number of worker threads (pool {} vs {})", threads, threads2)));
        }
        self.checks += 1;
        ctx.stats.probe("server_runs_checked");
        ctx.stats.probe_n("groups_revealed", ideal.len() as u64);
        if threads != threads2 {
            ctx.stats.probe("two_pool_sizes_compared");
        }
        if threads == 1 || threads2 == 1 {
            ctx.stats.probe("pool_of_one");
        }
        if msgs.len() >= 256 {
            ctx.stats.probe("batches_of_256_or_more_reports");
        }
        if msgs.len() > 4096 {
            ctx.stats.probe("batches_of_more_than_4096_reports");
        }
        let below = w.groups.len() - ideal.len();
        if !ideal.is_empty() && below > 0 {
            ctx.stats.nontrivial = true;
        }
        ctx.stats.state(crate::choices::mix(t as u64, crate::choices::mix(ideal.len() as u64, below as u64)));
        Ok(())
    }
}

impl AOracle for Oracle {
    fn on_tick(&mut self, ctx: &mut Ctx, w: &WorldA) -> Result<(), Violation> {
        if self.checks < 3 {
            self.check(ctx, w)?;
        }
        Ok(())
    }
    fn at_quiescence(&mut self, ctx: &mut Ctx, w: &WorldA) -> Result<(), Violation> {
        self.check(ctx, w)
    }
}

impl Property for C18 {
    fn id(&self) -> &'static str {
        "C18"
    }
    fn world(&self) -> &'static str {
        "A (STAR reporting) with star_test_utils::AggregationServer as aggregator on a rayon pool"
    }
    fn rule(&self) -> &'static str {
        "one run = a world-A history with one epoch (UTF-8) and one threshold for all groups, group sizes around the threshold (every 6th run a large batch of several hundred reports in up to 60 groups), transport drop/reorder/delay (no duplication: the property ranges over multisets of reports by distinct clients); at drawn moments and at quiescence the delivered reports, in arrival order, go to retrieve_outputs inside a rayon pool of drawn size 1..16; the canonically sorted output must equal the ideal functionality over the delivered reports (each measurement with >= t delivered reports exactly once with exactly the multiset of aux, empty == absent; nothing else) and must be the same under a second drawn permutation and pool size. rayon's internal scheduling is not under simulator control (tasks share no state; output canonicalised). non-trivial = one group revealed and one withheld in the same run; states = (t, revealed, withheld) cells"
    }
    fn runs(&self, thorough: bool) -> u64 {
        if thorough { 40_000 } else { 800 }
    }
    fn run(&self, ctx: &mut Ctx) -> Result<(), Violation> {
        let mut gen = GenCfg::standard(ctx.thorough);
        gen.same_epoch_threshold = true;
        gen.utf8_epochs = true;
        gen.sources = vec![0, 0, 1];
        gen.thresholds = vec![1, 2, 2, 3, 3, 5, 8, 20];
        gen.max_groups = if ctx.thorough { 12 } else { 6 };
        gen.max_clients_total = 90;
        // every 6th run is a LARGE batch (hundreds of reports, many groups): size-dependent code paths
        let huge = ctx.ch.chance(1, if ctx.thorough { 60 } else { 100 });
        let large = huge || ctx.ch.chance(1, 6);
        if huge {
            // several thousand reports in one batch
            gen.max_groups = 1000;
            gen.min_groups = 900;
            gen.max_clients_total = 6000;
            gen.thresholds = vec![5, 8];
            gen.aux_kinds = vec![-1, 1, 4];
            gen.meas_lens = vec![5, 11];
            gen.count_offsets = vec![-1, 0, 0, 1, 3];
            ctx.stats.probe("runs_with_thousands_of_reports");
        } else if large {
            gen.max_groups = 60;
            gen.min_groups = 35;
            gen.max_clients_total = if ctx.thorough { 1200 } else { 520 };
            gen.thresholds = vec![2, 3, 5, 8, 13];
            gen.aux_kinds = vec![-1, 0, 1, 4, 20];
            gen.meas_lens = vec![1, 5, 11, 32];
        }
        gen.count_offsets = vec![-2, -1, -1, 0, 0, 1, 3];
        gen.aux_kinds = vec![-1, -1, 0, 1, 4, 4, 20, 300];
        gen.meas_lens = vec![0, 1, 5, 11, 32, 32, 200];
        let mut net = NetCfg { drop: 150, dup: 0, replay: 0, misdeliver: 0, corrupt: 0, min_latency_us: 1_000, jitter_us: 600_000, long_delay: 80, long_delay_us: 3_000_000 };
        if !ctx.ch.chance(2, 3) {
            net.drop = 0;
        }
        if huge {
            net.drop = 20;
        }
        let mut w = WorldA::build(ctx, gen, net, false);
        if huge {
            w.sim.step_cap = 200_000;
        }
        let mut o = Oracle { checks: if huge { 2 } else { 0 } };
        w.run(ctx, &mut o)
    }
    fn real_components(&self) -> Vec<&'static str> {
        vec!["star_test_utils::AggregationServer::{new, retrieve_outputs}", "rayon (real thread pool, size drawn per call)", "sta_rs::{Message::generate/to_bytes/from_bytes, share_recover, derive_ske_key, Ciphertext::decrypt, load_bytes}"]
    }
    fn stub_components(&self) -> Vec<&'static str> {
        vec!["network", "clock", "OS entropy source", "client driver"]
    }
    fn assumptions(&self) -> Vec<&'static str> {
        vec!["duplicated deliveries are excluded from the collections whose OUTPUT is compared (a bucket padded with copies makes the reference server panic on PossibleShareCollision: C02's subject, observed and documented); such a refused collection is submitted, as a fault, BEFORE the honest one on the same worker threads in a quarter of the server runs", "empty aux is compared as absent aux (the reference server maps empty to None by construction)", "HashMap order and rayon scheduling are uncontrolled; neutralised by canonical ordering and covered by the determinism self-test"]
    }
    fn key_probes(&self) -> Vec<&'static str> {
        vec!["server_runs_checked", "groups_revealed", "two_pool_sizes_compared", "pool_of_one", "batches_of_256_or_more_reports"]
    }
}
