//! C15 — PPOPRF public keys, proofs, points and evaluations survive
//! serialisation (DESIGN.md §4 C15). World C: the values actually cross the
//! simulated wire; the transport truncates and pads to the size limits.
use crate::kernel::{Ctx, NetCfg, Violation};
use crate::props::c14::inputs;
use crate::runner::Property;
use crate::worlds::c::{CCfg, COracle, Exchange, WorldC};
use ppoprf::ppoprf as pp;
use ppoprf::PPRFError;

pub struct C15;

#[derive(Default)]
struct Oracle {
    pk_done: std::collections::BTreeSet<u64>,
}

fn check_pk(ctx: &mut Ctx, server: &pp::Server, label: &str) -> Result<(), Violation> {
    let pk = server.get_public_key();
    let bytes = pk.serialize_to_bincode().map_err(|e| Violation::new("c15.roundtrip", "pk_serialize", e.to_string()))?;
    let back = pp::ServerPublicKey::load_from_bincode(&bytes).map_err(|e| Violation::new("c15.roundtrip", "pk_load", format!("{}: serialised public key ({}B) does not load: {}", label, bytes.len(), e)))?;
    if back != pk {
        return Err(Violation::new("c15.roundtrip", "pk_differs", format!("{}: restored public key differs from the original", label)));
    }
    if back.serialize_to_bincode().ok().as_ref() != Some(&bytes) {
        return Err(Violation::new("c15.roundtrip", "pk_reserialize", format!("{}: restored public key serialises differently", label)));
    }
    // truncation: every prefix (thorough) / drawn prefixes (quick) must be refused
    let cuts: Vec<usize> = if ctx.thorough || bytes.len() <= 200 { (0..bytes.len()).collect() } else { (0..40).map(|_| ctx.ch.index(bytes.len())).collect() };
    for k in cuts {
        if pp::ServerPublicKey::load_from_bincode(&bytes[..k]).is_ok() {
            return Err(Violation::new("c15.truncated_ok", "pk", format!("{}: a public key truncated to {} of {} bytes was accepted (partially initialised value)", label, k, bytes.len())));
        }
        ctx.stats.fault("truncate");
    }
    // padding up to exactly the limit loads and equals; one byte more is refused as too big
    for total in [bytes.len() + 1, pp::MAX_SERIALIZED_PK_SIZE - 1, pp::MAX_SERIALIZED_PK_SIZE] {
        if total < bytes.len() {
            continue;
        }
        let mut b = bytes.clone();
        b.resize(total, 0xA5);
        ctx.stats.fault("extend_to_limit");
        match pp::ServerPublicKey::load_from_bincode(&b) {
            Ok(k) if k == pk => {}
            Ok(_) => return Err(Violation::new("c15.roundtrip", "pk_padded_differs", format!("{}: public key padded to {} bytes loads as a different value", label, total))),
            Err(e) => return Err(Violation::new("c15.limit", "pk_within_limit_refused", format!("{}: public key padded to {} bytes (limit {}) refused: {}", label, total, pp::MAX_SERIALIZED_PK_SIZE, e))),
        }
    }
    let mut b = bytes.clone();
    b.resize(pp::MAX_SERIALIZED_PK_SIZE + 1, 0xA5);
    match pp::ServerPublicKey::load_from_bincode(&b) {
        Err(PPRFError::SerializedDataTooBig) => {}
        other => return Err(Violation::new("c15.limit", "pk_over_limit", format!("{}: {} bytes (limit + 1) gave {} instead of SerializedDataTooBig", label, b.len(), if other.is_ok() { "Ok".to_string() } else { "another error".to_string() }))),
    }
    ctx.stats.probe("public_keys_checked");
    Ok(())
}

impl COracle for Oracle {
    fn on_request(&mut self, ctx: &mut Ctx, _w: &WorldC, _client: usize, _input: &[u8], _md: u8, blinded: &pp::Point) -> Result<(), Violation> {
        // points cross as JSON
        let js = serde_json::to_vec(blinded).map_err(|e| Violation::new("c15.roundtrip", "point_serialize", e.to_string()))?;
        let back: pp::Point = serde_json::from_slice(&js).map_err(|e| Violation::new("c15.roundtrip", "point_load", e.to_string()))?;
        if &back != blinded {
            return Err(Violation::new("c15.roundtrip", "point_differs", "a point restored from JSON differs from the original"));
        }
        for k in 0..js.len() {
            if serde_json::from_slice::<pp::Point>(&js[..k]).is_ok() {
                return Err(Violation::new("c15.truncated_ok", "point", format!("a JSON point truncated to {} of {} bytes was accepted", k, js.len())));
            }
        }
        ctx.stats.fault("truncate");
        {
            // a well-formed element of the wrong number of bytes (a bare point is a JSON array of bytes, a
            // point inside an evaluation a base64 string: whichever form this build uses)
            use base64::{engine::Engine as _, prelude::BASE64_STANDARD};
            let as_string: Option<Vec<u8>> = serde_json::from_slice::<String>(&js).ok().and_then(|s| BASE64_STANDARD.decode(s).ok());
            let as_array: Option<Vec<u8>> = serde_json::from_slice::<Vec<u8>>(&js).ok();
            let is_string = as_string.is_some();
            let raw = as_string.or(as_array).unwrap_or_default();
            if raw.len() == 32 {
                for n in [0usize, 1, 16, 31, 33, 64] {
                    let mut bytes = raw.clone();
                    bytes.resize(n, 0);
                    let j = if is_string { serde_json::to_vec(&BASE64_STANDARD.encode(&bytes)) } else { serde_json::to_vec(&bytes) }.unwrap_or_default();
                    ctx.stats.fault("element_of_wrong_length_in_json");
                    if serde_json::from_slice::<pp::Point>(&j).is_ok() {
                        return Err(Violation::new("c15.truncated_ok", "json_point_length", format!("a JSON point carrying {} bytes instead of 32 was accepted", n)));
                    }
                }
            }
        }
        ctx.stats.probe("points_checked");
        Ok(())
    }
    fn on_exchange(&mut self, ctx: &mut Ctx, w: &WorldC, x: &Exchange) -> Result<(), Violation> {
        let pk = pp::ServerPublicKey::load_from_bincode(x.pk_bytes).map_err(|e| Violation::new("c15.roundtrip", "pk_load", e.to_string()))?;
        if self.pk_done.insert(x.key_id) {
            if let Some(sv) = w.servers.iter().find(|s| s.model.key_id == x.key_id) {
                check_pk(ctx, &sv.server, &format!("key {} ({} tags)", x.key_id, sv.model.registered.len()))?;
            }
        }
        // evaluation: JSON -> value -> JSON is stable, and verdicts are interchangeable
        let e: pp::Evaluation = serde_json::from_slice(x.eval_json).map_err(|e| Violation::new("c15.roundtrip", "evaluation_load", e.to_string()))?;
        let js2 = serde_json::to_vec(&e).map_err(|e| Violation::new("c15.roundtrip", "evaluation_serialize", e.to_string()))?;
        if js2 != x.eval_json {
            return Err(Violation::new("c15.roundtrip", "evaluation_differs", "an evaluation restored from JSON serialises differently from the original"));
        }
        let v1 = pp::Client::verify(&pk, x.blinded, &e, x.md);
        if !v1 {
            return Err(Violation::new("c15.roundtrip", "restored_not_interchangeable", "a restored evaluation + restored public key do not verify although the originals are honest"));
        }
        // proof: bincode round trip, equal by re-serialisation, interchangeable in verification
        let proof = e.proof.as_ref().ok_or_else(|| Violation::new("c15.roundtrip", "proof_missing", "verifiable evaluation lost its proof in JSON"))?;
        let pb = proof.serialize_to_bincode().map_err(|e| Violation::new("c15.roundtrip", "proof_serialize", e.to_string()))?;
        if pb.len() > pp::MAX_SERIALIZED_PROOF_SIZE {
            return Err(Violation::new("c15.limit", "proof_larger_than_limit", format!("an honest proof serialises to {} bytes, above the documented limit", pb.len())));
        }
        let p2 = pp::ProofDLEQ::load_from_bincode(&pb).map_err(|e| Violation::new("c15.roundtrip", "proof_load", e.to_string()))?;
        if p2.serialize_to_bincode().ok().as_ref() != Some(&pb) {
            return Err(Violation::new("c15.roundtrip", "proof_differs", "a proof restored from bincode differs from the original"));
        }
        let e2 = pp::Evaluation { output: e.output.clone(), proof: Some(p2) };
        if !pp::Client::verify(&pk, x.blinded, &e2, x.md) {
            return Err(Violation::new("c15.roundtrip", "restored_proof_not_interchangeable", "a proof restored from bincode does not verify in place of the original"));
        }
        for k in 0..pb.len() {
            if pp::ProofDLEQ::load_from_bincode(&pb[..k]).is_ok() {
                return Err(Violation::new("c15.truncated_ok", "proof", format!("a proof truncated to {} of {} bytes was accepted", k, pb.len())));
            }
        }
        ctx.stats.fault("truncate");
        // bytes that are not the encoding of a scalar (>= group order) do not decode
        {
            let l: [u8; 32] = [0xed, 0xd3, 0xf5, 0x5c, 0x1a, 0x63, 0x12, 0x58, 0xd6, 0x9c, 0xf7, 0xa2, 0xde, 0xf9, 0xde, 0x14, 0, 0, 0, 0, 0, 0, 0, 0, 0, 0, 0, 0, 0, 0, 0, 0x10];
            let mut variants: Vec<(Vec<u8>, &str)> = Vec::new();
            for (off, name) in [(0usize, "c"), (32usize, "s")] {
                // scalar + l (same residue, non-canonical encoding)
                let mut b = pb.clone();
                let mut carry = 0u16;
                for i in 0..32 {
                    let v = b[off + i] as u16 + l[i] as u16 + carry;
                    b[off + i] = v as u8;
                    carry = v >> 8;
                }
                if carry == 0 {
                    variants.push((b, name));
                }
                let mut b = pb.clone();
                for i in 0..32 {
                    b[off + i] = 0xff;
                }
                variants.push((b, name));
                let mut b = pb.clone();
                b[off..off + 32].copy_from_slice(&l);
                variants.push((b, name));
            }
            for (b, name) in variants {
                ctx.stats.fault("noncanonical_scalar");
                if let Ok(p) = pp::ProofDLEQ::load_from_bincode(&b) {
                    let again = p.serialize_to_bincode().unwrap_or_default();
                    return Err(Violation::new(
                        "c15.noncanonical_accepted",
                        name,
                        format!("a proof whose scalar {} is not a canonical encoding (>= group order) was accepted{}", name, if again != b { " and re-serialises to different bytes: the restored value is not what was sent" } else { "" }),
                    ));
                }
            }
            // any accepted 64-byte string must be exactly the encoding of the value it restores to
            let mut b = pb.clone();
            let i = ctx.ch.index(64);
            b[i] ^= 1 << ctx.ch.draw(8);
            if let Ok(p) = pp::ProofDLEQ::load_from_bincode(&b) {
                if p.serialize_to_bincode().ok().as_ref() != Some(&b) {
                    return Err(Violation::new("c15.noncanonical_accepted", "bitflip", "an accepted proof does not re-serialise to the bytes it was loaded from"));
                }
            }
        }
        let mut big = pb.clone();
        big.resize(pp::MAX_SERIALIZED_PROOF_SIZE + 1, 0);
        match pp::ProofDLEQ::load_from_bincode(&big) {
            Err(PPRFError::SerializedDataTooBig) => {}
            other => return Err(Violation::new("c15.limit", "proof_over_limit", format!("{} bytes (limit + 1) gave {} instead of SerializedDataTooBig", big.len(), if other.is_ok() { "Ok" } else { "another error" }))),
        }
        // JSON evaluation: every prefix refused; garbage never yields a value
        let cuts: Vec<usize> = if ctx.thorough { (0..x.eval_json.len()).collect() } else { (0..24).map(|_| ctx.ch.index(x.eval_json.len())).collect() };
        for k in cuts {
            if serde_json::from_slice::<pp::Evaluation>(&x.eval_json[..k]).is_ok() {
                return Err(Violation::new("c15.truncated_ok", "evaluation", format!("a JSON evaluation truncated to {} of {} bytes was accepted", k, x.eval_json.len())));
            }
        }
        ctx.stats.fault("truncate");
        // truncation INSIDE a field: every base64 string of the JSON form that carries a 32-byte element is
        // replaced by well-formed (padded) base64 of fewer or more bytes; byte truncation of the text never
        // produces these, because it breaks the padding first
        {
            use base64::{engine::Engine as _, prelude::BASE64_STANDARD};
            fn strings(v: &serde_json::Value, path: &mut Vec<String>, out: &mut Vec<(Vec<String>, String)>) {
                match v {
                    serde_json::Value::String(s) => out.push((path.clone(), s.clone())),
                    serde_json::Value::Object(m) => {
                        for (k, c) in m {
                            path.push(k.clone());
                            strings(c, path, out);
                            path.pop();
                        }
                    }
                    _ => {}
                }
            }
            fn set(v: &mut serde_json::Value, path: &[String], s: String) {
                match path.split_first() {
                    None => *v = serde_json::Value::String(s),
                    Some((k, rest)) => set(&mut v[k.as_str()], rest, s),
                }
            }
            let root: serde_json::Value = serde_json::from_slice(x.eval_json).map_err(|e| Violation::new("c.exchange", "json", e.to_string()))?;
            let mut found = Vec::new();
            strings(&root, &mut Vec::new(), &mut found);
            for (path, s) in found {
                let raw = match BASE64_STANDARD.decode(&s) {
                    Ok(r) if r.len() == 32 => r,
                    _ => continue,
                };
                for n in [0usize, 1, 15, 16, 30, 31, 33, 34, 64] {
                    let mut bytes = raw.clone();
                    bytes.resize(n, 0);
                    let mut v = root.clone();
                    set(&mut v, &path, BASE64_STANDARD.encode(&bytes));
                    let js = serde_json::to_vec(&v).unwrap_or_default();
                    ctx.stats.fault("element_of_wrong_length_in_json");
                    if serde_json::from_slice::<pp::Evaluation>(&js).is_ok() {
                        return Err(Violation::new("c15.truncated_ok", "json_element_length", format!("a JSON evaluation whose field {} carries {} bytes instead of 32 was accepted", path.join("."), n)));
                    }
                }
            }
        }
        for _ in 0..4 {
            // byte faults: an accepted value must be exactly what the bytes say (stable re-serialisation)
            let mut b = x.eval_json.to_vec();
            let i = ctx.ch.index(b.len());
            b[i] ^= 1 << ctx.ch.draw(8);
            ctx.stats.fault("bitflip");
            if let Ok(v) = serde_json::from_slice::<pp::Evaluation>(&b) {
                let again = serde_json::to_vec(&v).unwrap_or_default();
                let v2: Result<pp::Evaluation, _> = serde_json::from_slice(&again);
                if v2.map(|v2| serde_json::to_vec(&v2).unwrap_or_default() != again).unwrap_or(true) {
                    return Err(Violation::new("c15.roundtrip", "unstable_decoding", "a decoded evaluation does not re-serialise stably"));
                }
            }
        }
        // evaluations of DEGENERATE request points (identity, base point) are values like any other
        if let Some(sv) = w.servers.iter().find(|s| s.model.key_id == x.key_id) {
            use curve25519_dalek::traits::Identity;
            let ident = curve25519_dalek::ristretto::RistrettoPoint::identity().compress().to_bytes();
            let base = curve25519_dalek::constants::RISTRETTO_BASEPOINT_POINT.compress().to_bytes();
            for (name, pb) in [("identity", ident), ("base point", base)] {
                let pt = pp::Point::from(&pb[..]);
                let pj = serde_json::to_vec(&pt).map_err(|e| Violation::new("c15.roundtrip", "point_serialize", e.to_string()))?;
                match serde_json::from_slice::<pp::Point>(&pj) {
                    Ok(back) if back == pt => {}
                    _ => return Err(Violation::new("c15.roundtrip", "degenerate_point", format!("the {} as a point does not survive JSON", name))),
                }
                if let Ok(ev) = sv.server.eval(&pt, x.md, true) {
                    let js = serde_json::to_vec(&ev).map_err(|e| Violation::new("c15.roundtrip", "evaluation_serialize", e.to_string()))?;
                    match serde_json::from_slice::<pp::Evaluation>(&js) {
                        Ok(back) => {
                            if serde_json::to_vec(&back).ok().as_ref() != Some(&js) {
                                return Err(Violation::new("c15.roundtrip", "degenerate_evaluation_differs", format!("the evaluation of the {} restored from JSON serialises differently", name)));
                            }
                            if pp::Client::verify(&pk, &pt, &back, x.md) != pp::Client::verify(&pk, &pt, &ev, x.md) {
                                return Err(Violation::new("c15.roundtrip", "degenerate_not_interchangeable", format!("the restored evaluation of the {} is not interchangeable in verification", name)));
                            }
                        }
                        Err(e) => {
                            return Err(Violation::new("c15.roundtrip", "degenerate_evaluation_refused", format!("the server's evaluation of the {} as request point cannot be restored from its own JSON: {}", name, e)));
                        }
                    }
                    ctx.stats.probe("degenerate_evaluations_checked");
                }
            }
        }
        ctx.stats.probe("evaluations_checked");
        ctx.stats.state(crate::choices::mix(x.pk_bytes.len() as u64, crate::choices::mix(x.eval_json.len() as u64, x.md as u64)));
        ctx.stats.nontrivial = true;
        Ok(())
    }
}

impl Property for C15 {
    fn id(&self) -> &'static str {
        "C15"
    }
    fn level(&self) -> &'static str {
        "fault_enumeration"
    }
    fn world(&self) -> &'static str {
        "C (randomness service): keys, proofs, points and evaluations cross the simulated wire"
    }
    fn rule(&self) -> &'static str {
        "one run = a world-C history in verifiable mode with tag sets of 0..256 tags; every public key (bincode), proof (bincode), point (JSON) and evaluation (JSON) that crosses the wire is restored and must equal the original (Eq, or equality of re-serialisation) and be interchangeable with it in Client::verify; transport faults enumerated per value: truncation to every prefix (refused), padding to limit-1 / limit (loads, equal) and limit+1 (SerializedDataTooBig) for the 16384-byte and 64-byte limits, bit flips (an accepted value must re-serialise stably). plus stand-alone public keys with 0, 1, 255 and 256 tags. non-trivial = at least one full exchange was checked; distinct = event digests; states = (public-key size, evaluation size, tag) cells"
    }
    fn runs(&self, thorough: bool) -> u64 {
        if thorough { 100_000 } else { 4_000 }
    }
    fn run(&self, ctx: &mut Ctx) -> Result<(), Violation> {
        let ntags = *ctx.ch.pick(&[1usize, 1, 2, 3, 8, 64]);
        let start = ctx.ch.draw(256) as u8;
        let tags: Vec<u8> = (0..ntags).map(|i| start.wrapping_add(i as u8)).collect();
        let registration = crate::props::c14::registration_list(ctx, &tags);
        let cfg = CCfg {
            registration,
            n_servers: 1 + ctx.ch.index(2),
            n_clients: 1 + ctx.ch.index(3),
            tags,
            epoch_len_us: 1_000_000,
            rotate: false,
            replicate: false,
            crash: false,
            ops: false,
            damaged_sync: false,
            verifiable: true,
            requests_per_client: 1 + ctx.ch.index(2),
            inputs: inputs(ctx),
            horizon_us: 2_000_000,
        };
        let net = NetCfg { drop: 0, dup: 100, replay: 0, misdeliver: 0, corrupt: 0, min_latency_us: 2_000, jitter_us: 500_000, long_delay: 0, long_delay_us: 0 };
        let mut w = WorldC::build(ctx, cfg, net)?;
        let mut o = Oracle::default();
        w.run(ctx, &mut o)?;
        // stand-alone keys with extreme tag sets
        let n = *ctx.ch.pick(&[0usize, 1, 255, 256, 100]);
        let tags: Vec<u8> = (0..n).map(|i| i as u8).collect();
        let srv = ctx.os.with_node(77, || pp::Server::new(tags)).map_err(|e| Violation::new("c15.setup", "setup", e.to_string()))?;
        check_pk(ctx, &srv, &format!("stand-alone key with {} tags", n))?;
        if n >= 255 {
            ctx.stats.probe("public_key_with_ge_255_tags");
        }
        if n == 0 {
            ctx.stats.probe("public_key_with_0_tags");
        }
        Ok(())
    }
    fn real_components(&self) -> Vec<&'static str> {
        vec!["ppoprf::ppoprf::{ServerPublicKey, ProofDLEQ}::{serialize_to_bincode, load_from_bincode}", "serde_json <-> Point / Evaluation (point_serialize / point_deserialize)", "Client::verify", "bincode"]
    }
    fn stub_components(&self) -> Vec<&'static str> {
        vec!["network", "truncation / padding faults", "OS entropy source"]
    }
    fn assumptions(&self) -> Vec<&'static str> {
        vec!["bincode ignores trailing bytes by design; 'padding within the limit loads and equals' documents that", "no size limit is documented for the JSON forms"]
    }
    fn key_probes(&self) -> Vec<&'static str> {
        vec!["public_keys_checked", "points_checked", "evaluations_checked", "public_key_with_ge_255_tags", "public_key_with_0_tags"]
    }
}
