//! C10 — puncturing removes exactly the punctured inputs; all other PRF values
//! persist (DESIGN.md §4 C10). World C, GGM variant driven through the PPRF trait.
use crate::choices::mix;
use crate::ev;
use crate::kernel::{Ctx, Violation};
use crate::runner::Property;
use ppoprf::ggm::GGM;
use ppoprf::ppoprf as pp;
use ppoprf::PPRF;
use std::collections::BTreeSet;

pub struct C10;

struct Inst {
    key: GGM,
    punctured: [bool; 256],
    n_punct: usize,
}

fn eval(k: &GGM, x: u8) -> Option<[u8; 32]> {
    let mut out = [0u8; 32];
    match k.eval(&[x], &mut out) {
        Ok(()) => Some(out),
        Err(_) => None,
    }
}

fn mask_hash(p: &[bool; 256]) -> u64 {
    let mut h = 0xcbf29ce484222325u64;
    for c in p.chunks(8) {
        let mut b = 0u8;
        for (i, v) in c.iter().enumerate() {
            b |= (*v as u8) << i;
        }
        h = (h ^ b as u64).wrapping_mul(0x100000001b3);
    }
    h
}

fn check_inputs(ctx: &mut Ctx, inst: &Inst, v: &[[u8; 32]; 256], xs: impl Iterator<Item = u8>, after: &str) -> Result<(), Violation> {
    for x in xs {
        let got = eval(&inst.key, x);
        ctx.stats.probe("sweep_evals");
        match (inst.punctured[x as usize], got) {
            (true, Some(_)) => {
                return Err(Violation::new("c10.punctured_evaluates", "punctured_evaluates", format!("input {} was punctured but evaluates again after {}", x, after)));
            }
            (false, None) => {
                return Err(Violation::new("c10.value_changed", "unpunctured_lost", format!("input {} was never punctured but no longer evaluates after {} ({} punctured so far)", x, after, inst.n_punct)));
            }
            (false, Some(o)) if o != v[x as usize] => {
                return Err(Violation::new("c10.value_changed", "value_changed", format!("input {} changed its value after {}", x, after)));
            }
            _ => {}
        }
    }
    Ok(())
}

fn order(ctx: &mut Ctx) -> (Vec<u8>, &'static str) {
    let kind = ctx.ch.draw(8);
    let all: Vec<u8> = (0..=255u8).collect();
    match kind {
        0 => {
            let p = ctx.ch.permutation(256);
            (p.into_iter().map(|i| i as u8).collect(), "uniform")
        }
        1 => (all, "ascending"),
        2 => (all.into_iter().rev().collect(), "descending"),
        3 => {
            // sibling-first: x, x^1, x^2, x^3, x^4 ... around a drawn base
            let base = ctx.ch.draw(256) as u8;
            ((0..=255u8).map(|d| base ^ d).collect(), "sibling-first")
        }
        4 => {
            // cousins: flip high bits first
            let base = ctx.ch.draw(256) as u8;
            ((0..=255u8).map(|d| base ^ d.reverse_bits()).collect(), "cousins")
        }
        5 => {
            // subtree-last: everything outside one subtree, then the subtree
            // the root split is on bit 0 (LSB first): half of the time empty one ROOT subtree first
            let bit = if ctx.ch.chance(1, 2) { 0 } else { ctx.ch.draw(8) as u8 };
            let side = ctx.ch.draw(2) as u8;
            let mut a: Vec<u8> = (0..=255u8).filter(|x| (x >> bit) & 1 == side).collect();
            a.extend((0..=255u8).filter(|x| (x >> bit) & 1 != side));
            (a, "subtree-last")
        }
        6 => {
            // boundary tags first
            let mut a = vec![0u8, 255, 1, 254, 127, 128, 0x55, 0xaa];
            for x in 0..=255u8 {
                if !a.contains(&x) {
                    a.push(x);
                }
            }
            (a, "boundaries-first")
        }
        _ => {
            let p = ctx.ch.permutation(256);
            (p.into_iter().map(|i| (i as u8).rotate_left(3)).collect(), "uniform-rot")
        }
    }
}

impl Property for C10 {
    fn id(&self) -> &'static str {
        "C10"
    }
    fn world(&self) -> &'static str {
        "C (GGM variant): one puncturable key and its clones driven through operation histories"
    }
    fn rule(&self) -> &'static str {
        "one run = GGM::setup() under the entropy seam, a full sweep fixing the model table V[0..255] (pairwise distinct), then a drawn history of eval / puncture / repeated puncture / wrong-length eval and puncture (0, 2, 3, 9, 32, 255, 256, 257, 513 bytes) / clone-and-switch, with puncture orders from {uniform, ascending, descending, sibling-first, cousins, subtree-last, boundaries-first} and lengths from a few to all 256 (incl. the 256th); after every operation the result is compared with the model and the affected subtree plus a sample (or the full domain: chance 1/8 quick, 1/2 thorough, and always at the end) is swept. Seeded search over histories, not exhaustive subset enumeration. non-trivial = >= 3 punctures and a full sweep after them; states = distinct punctured-set bitmasks"
    }
    fn runs(&self, thorough: bool) -> u64 {
        if thorough { 40_000 } else { 1_200 }
    }
    fn run(&self, ctx: &mut Ctx) -> Result<(), Violation> {
        let key = ctx.os.with_node(2, GGM::setup);
        let mut v = [[0u8; 32]; 256];
        let mut seen: BTreeSet<[u8; 32]> = BTreeSet::new();
        for x in 0..=255u8 {
            let o = eval(&key, x).ok_or_else(|| Violation::new("c10.value_changed", "fresh_key_refuses", format!("a fresh key does not evaluate input {}", x)))?;
            if !seen.insert(o) {
                return Err(Violation::new("c10.collision", "collision", format!("two distinct inputs share the value of input {}", x)));
            }
            v[x as usize] = o;
        }
        let mut insts: Vec<Inst> = vec![Inst { key, punctured: [false; 256], n_punct: 0 }];
        // The same puncturable key as a user of the crate holds it: inside ppoprf::Server, with the
        // input as the one-byte metadata tag. The shadow follows instance 0 of the history.
        let mut shadow: Option<pp::Server> = if ctx.ch.chance(1, 3) {
            ctx.stats.probe("server_shadow_runs");
            Some(ctx.os.with_node(3, || pp::Server::new((0..=255u8).collect())).map_err(|e| Violation::new("c10.value_changed", "server_new", format!("Server::new over the full domain failed: {}", e)))?)
        } else {
            None
        };
        let shadow_point = pp::Point::from(&curve25519_dalek::constants::RISTRETTO_BASEPOINT_COMPRESSED.to_bytes()[..]);
        let mut cur = 0usize;
        let (ord, ord_name) = order(ctx);
        let mode = if ord_name == "subtree-last" && ctx.ch.chance(2, 3) { 0 } else { ctx.ch.draw(6) };
        let complete = mode == 0; // complete puncturing of one instance, including the 256th input
        let n_ops = match mode {
            0 => 330 + ctx.ch.index(40),
            1 => 3 + ctx.ch.index(6),
            2 => 255,
            _ => 8 + ctx.ch.index(if ctx.thorough { 200 } else { 90 }),
        };
        ev!(ctx, "order={} ops={}", ord_name, n_ops);
        let full_chance = if ctx.thorough { 2 } else { 8 };
        let mut next_in_order = 0usize;
        let mut did_full_after_punct = false;
        for step in 0..n_ops {
            let op = ctx.ch.draw(20);
            let inst_n = insts.len();
            match op {
                0 if inst_n < 4 && !complete => {
                    // clone: both copies continue independently
                    let c = Inst { key: insts[cur].key.clone(), punctured: insts[cur].punctured, n_punct: insts[cur].n_punct };
                    if ctx.ch.chance(1, 3) {
                        // the original goes away, a copy of the copy takes its place
                        let orig = std::mem::replace(&mut insts[cur].key, c.key.clone());
                        drop(orig);
                        ctx.stats.probe("original_dropped_clones_live_on");
                    }
                    insts.push(c);
                    ctx.stats.probe("clones");
                    ev!(ctx, "step {} clone {} -> {}", step, cur, insts.len() - 1);
                }
                1 if !complete => {
                    cur = ctx.ch.index(inst_n);
                    ev!(ctx, "step {} switch to instance {}", step, cur);
                }
                2 => {
                    // wrong-length operations must fail and change nothing
                    // (lengths that are 1 modulo 2^8 / 2^16 included: a length compared after narrowing would pass)
                    let len = *ctx.ch.pick(&[0usize, 2, 3, 9, 32, 255, 256, 257, 513]);
                    let inp = ctx.ch.bytes(len);
                    let mut out = [0u8; 32];
                    let before = mask_hash(&insts[cur].punctured);
                    let r1 = insts[cur].key.eval(&inp, &mut out).is_ok();
                    let r2 = insts[cur].key.puncture(&inp).is_ok();
                    if r1 || r2 {
                        return Err(Violation::new("c10.badlen", if r1 { "eval" } else { "puncture" }, format!("{} accepted an input of {} bytes", if r1 { "eval" } else { "puncture" }, len)));
                    }
                    let _ = before;
                    let sample: Vec<u8> = (0..16).map(|_| ctx.ch.draw(256) as u8).collect();
                    check_inputs(ctx, &insts[cur], &v, sample.into_iter(), "a refused wrong-length operation")?;
                    ctx.stats.probe("wrong_length_refused");
                }
                3 | 4 => {
                    let x = ctx.ch.draw(256) as u8;
                    check_inputs(ctx, &insts[cur], &v, std::iter::once(x), "nothing (plain eval)")?;
                }
                5 if insts[cur].n_punct > 0 => {
                    // puncture an already punctured input: refused, nothing changes
                    let cands: Vec<u8> = (0..=255u8).filter(|x| insts[cur].punctured[*x as usize]).collect();
                    let x = *ctx.ch.pick(&cands);
                    if insts[cur].key.puncture(&[x]).is_ok() {
                        return Err(Violation::new("c10.double_puncture", "double_puncture", format!("input {} was punctured a second time without error", x)));
                    }
                    if let (0, Some(srv)) = (cur, shadow.as_mut()) {
                        if srv.puncture(x).is_ok() {
                            return Err(Violation::new("c10.double_puncture", "double_puncture_via_server", format!("input {} was punctured a second time through ppoprf::Server::puncture without error", x)));
                        }
                        ctx.stats.probe("server_double_puncture_refused");
                    }
                    let around: Vec<u8> = (0..8).map(|b| x ^ (1 << b)).chain(std::iter::once(x)).collect();
                    check_inputs(ctx, &insts[cur], &v, around.into_iter(), "a refused repeated puncture")?;
                    ctx.stats.probe("double_puncture_refused");
                }
                _ => {
                    // next unpunctured input of this instance in the drawn order
                    let mut x = None;
                    for _ in 0..256 {
                        let c = ord[next_in_order % 256];
                        next_in_order += 1;
                        if !insts[cur].punctured[c as usize] {
                            x = Some(c);
                            break;
                        }
                    }
                    let x = match x {
                        Some(x) => x,
                        None => continue,
                    };
                    let r = insts[cur].key.puncture(&[x]);
                    if let Err(e) = r {
                        return Err(Violation::new("c10.value_changed", "puncture_refused", format!("puncturing the unpunctured input {} failed ({}) with {} punctured before (order {})", x, e, insts[cur].n_punct, ord_name)));
                    }
                    if let (0, Some(srv)) = (cur, shadow.as_mut()) {
                        if let Err(e) = srv.puncture(x) {
                            return Err(Violation::new("c10.value_changed", "puncture_refused_via_server", format!("puncturing the unpunctured input {} through ppoprf::Server::puncture failed ({}) with {} punctured before (order {})", x, e, insts[cur].n_punct, ord_name)));
                        }
                    }
                    insts[cur].punctured[x as usize] = true;
                    insts[cur].n_punct += 1;
                    ev!(ctx, "step {} inst {} puncture {} (#{})", step, cur, x, insts[cur].n_punct);
                    ctx.stats.state(mask_hash(&insts[cur].punctured));
                    if insts[cur].n_punct == 256 {
                        ctx.stats.probe("punctured_all_256");
                    }
                    let label = format!("puncturing {} (#{}, order {})", x, insts[cur].n_punct, ord_name);
                    if ctx.ch.chance(1, full_chance) {
                        check_inputs(ctx, &insts[cur], &v, 0..=255u8, &label)?;
                        ctx.stats.probe("full_sweeps");
                        if insts[cur].n_punct >= 3 {
                            did_full_after_punct = true;
                        }
                    } else {
                        let mut around: Vec<u8> = (0..8).map(|b| x ^ (1 << b)).collect();
                        around.push(x);
                        around.extend((0..8).map(|_| ctx.ch.draw(256) as u8));
                        check_inputs(ctx, &insts[cur], &v, around.into_iter(), &label)?;
                    }
                    // other instances are not affected
                    if insts.len() > 1 {
                        let o = (cur + 1) % insts.len();
                        check_inputs(ctx, &insts[o], &v, [x, x ^ 1].into_iter(), &format!("a puncture of {} on ANOTHER instance (clone)", x))?;
                        ctx.stats.probe("clone_independence_checked");
                    }
                }
            }
        }
        for i in 0..insts.len() {
            check_inputs(ctx, &insts[i], &v, 0..=255u8, "the whole history (final sweep)")?;
            ctx.stats.probe("full_sweeps");
            if insts[i].n_punct >= 3 {
                did_full_after_punct = true;
            }
        }
        if let Some(srv) = shadow.as_ref() {
            // the server answers a tag iff the history left it unpunctured (8 drawn tags + the last punctured)
            let mut tags: Vec<u8> = (0..8).map(|_| ctx.ch.draw(256) as u8).collect();
            if let Some(x) = (0..=255u8).rev().find(|x| insts[0].punctured[*x as usize]) {
                tags.push(x);
            }
            for x in tags {
                let ok = ctx.os.with_node(3, || srv.eval(&shadow_point, x, false)).is_ok();
                if ok == insts[0].punctured[x as usize] {
                    return Err(Violation::new("c10.punctured_evaluates", "server_eval_iff", format!("ppoprf::Server answers tag {}: {}, but the history {} it", x, ok, if ok { "punctured" } else { "never punctured" })));
                }
                ctx.stats.probe("server_shadow_evals");
            }
        }
        ctx.stats.nontrivial = did_full_after_punct;
        Ok(())
    }
    fn real_components(&self) -> Vec<&'static str> {
        vec!["ppoprf::ggm::GGM (setup, eval, puncture, Clone) through the PPRF trait", "strobe-rs", "bitvec"]
    }
    fn stub_components(&self) -> Vec<&'static str> {
        vec!["OS entropy source", "operation driver", "ideal PPRF table + punctured set (harness)"]
    }
    fn assumptions(&self) -> Vec<&'static str> {
        vec!["seeded search over puncture histories; the 2^256 subsets are not enumerated"]
    }
    fn key_probes(&self) -> Vec<&'static str> {
        vec!["full_sweeps", "punctured_all_256", "double_puncture_refused", "wrong_length_refused", "clones", "clone_independence_checked"]
    }
}
