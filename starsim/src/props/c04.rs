//! C04 — tags and keys are a function of exactly (measurement, epoch, threshold)
//! (DESIGN.md §4 C04). World A, STARLite clients, no transport faults.
use crate::choices::hex_short;
use crate::kernel::{Ctx, NetCfg, Violation};
use crate::models::layout;
use crate::props::c01;
use crate::runner::Property;
use crate::worlds::a::{AOracle, GenCfg, Sent, WorldA};
use num_bigint::BigUint;
use sta_rs::{derive_ske_key, MessageGenerator, SingleMeasurement};
use std::collections::{BTreeMap, BTreeSet};

pub struct C04;

type Triple = (Vec<u8>, Vec<u8>, u32);

#[derive(Default)]
struct Oracle {
    inner: c01::Oracle,
    table: BTreeMap<Triple, (Vec<u8>, Vec<u8>, Vec<u8>)>,
    by_rnd: BTreeMap<Vec<u8>, Triple>,
    by_tag: BTreeMap<Vec<u8>, Triple>,
    by_key: BTreeMap<Vec<u8>, Triple>,
    points: BTreeSet<BigUint>,
    /// per triple: shares of BOTH entry points (Message::generate, share_with_local_randomness), alternating
    both_kinds: BTreeMap<Triple, Vec<sta_rs::Share>>,
    /// the generator the previous client used (its randomness already sampled once), with its epoch and threshold
    prev_gen: Option<(MessageGenerator, Vec<u8>, u32)>,
}

fn show(t: &Triple) -> String {
    format!("(m={}, e={}, t={})", hex_short(&t.0), hex_short(&t.1), t.2)
}

impl Oracle {
    fn insert(&mut self, ctx: &mut Ctx, triple: &Triple, rnd: Vec<u8>, tag: Vec<u8>, key: Vec<u8>, who: &str) -> Result<(), Violation> {
        if let Some((r, t, k)) = self.table.get(triple) {
            if r != &rnd || t != &tag || k != &key {
                let what = if r != &rnd { "randomness" } else if t != &tag { "tag" } else { "key" };
                return Err(Violation::new("c04.not_function", what, format!("{}: two independent clients that agree on {} obtained different {}", who, show(triple), what)));
            }
            ctx.stats.probe("agreements_checked");
            return Ok(());
        }
        for (name, map, val) in [("randomness", &self.by_rnd, &rnd), ("tag", &self.by_tag, &tag), ("key", &self.by_key, &key)] {
            if let Some(other) = map.get(val) {
                if other != triple {
                    return Err(Violation::new("c04.collision", name, format!("{}: clients with {} and {} obtained the same {}", who, show(other), show(triple), name)));
                }
            }
        }
        self.by_rnd.insert(rnd.clone(), triple.clone());
        self.by_tag.insert(tag.clone(), triple.clone());
        self.by_key.insert(key.clone(), triple.clone());
        self.table.insert(triple.clone(), (rnd, tag, key));
        ctx.stats.probe("triples_in_table");
        Ok(())
    }
}

impl AOracle for Oracle {
    fn on_sent(&mut self, ctx: &mut Ctx, w: &WorldA, s: &Sent) -> Result<(), Violation> {
        let g = &w.groups[s.group];
        let c = &w.clients[s.client];
        let triple: Triple = (g.measurement.clone(), g.epoch.clone(), g.threshold);
        // what this client derived, observed through the public API only
        let mg = MessageGenerator::new(crate::worlds::a::make_measurement(&g.measurement), g.threshold, &g.epoch);
        let mut answered_wrong_length: Option<Vec<u8>> = None;
        if ctx.ch.chance(1, 8) {
            // API misuse right before the valid request: an output buffer of the wrong length. The documented
            // reaction is a panic; the caller survives it (catch_unwind) and asks again properly. Whatever the
            // refused call did must not colour the valid one for the same triple.
            let len = *ctx.ch.pick(&[0usize, 16, 31, 33, 64]);
            let mut wrong = vec![0u8; len];
            if ctx.ch.chance(1, 2) {
                // ... with a valid request for a neighbouring triple in between (the previous caller on this thread)
                let decoy = MessageGenerator::new(crate::worlds::a::make_measurement(&g.measurement), g.threshold ^ 1, &g.epoch);
                let mut r = [0u8; 32];
                decoy.sample_local_randomness(&mut r);
            }
            for b in wrong.iter_mut() {
                *b = 0xa5; // (so that "left untouched" is visible)
            }
            let refused = crate::runner::guarded(|| mg.sample_local_randomness(&mut wrong)).is_err();
            ctx.stats.fault("wrong_length_randomness_buffer");
            if refused {
                ctx.stats.probe("wrong_length_buffer_refused_then_valid_request");
            } else {
                answered_wrong_length = Some(wrong);
            }
        }
        let mut rnd = [0u8; 32];
        mg.sample_local_randomness(&mut rnd);
        // A wrong-length request that is ANSWERED instead of refused hands the caller something it will use as
        // this triple's randomness. That is only compatible with "a function of exactly the triple" if it
        // agrees with the triple's randomness on the common prefix (a truncating or over-filling variant);
        // zeros, an untouched buffer or anything else are a second, different value for the same triple.
        if let Some(w) = answered_wrong_length {
            let n = w.len().min(32);
            if n > 0 && w[..n] != rnd[..n] {
                return Err(Violation::new(
                    "c04.not_function",
                    "wrong_length_request_answered",
                    format!("client {}: a request with a {}-byte buffer was answered rather than refused, with {} - not the randomness of {} ({})", c.idx, w.len(), hex_short(&w[..n]), show(&triple), hex_short(&rnd[..n])),
                ));
            }
            ctx.stats.probe("wrong_length_request_answered_consistently");
        }
        let mat = ctx.os.with_node(c.node as u64, || mg.share_with_local_randomness()).map_err(|e| Violation::new("c04.generate", "generate", e.to_string()))?;
        let pr = layout::parse_report(&s.bytes).ok_or_else(|| Violation::new("c04.layout", "layout", "report does not parse"))?;
        if pr.tag != mat.tag {
            return Err(Violation::new("c04.not_function", "tag", format!("client {}: tag in Message::generate's report differs from share_with_local_randomness' tag for {}", c.idx, show(&triple))));
        }
        self.insert(ctx, &triple, rnd.to_vec(), mat.tag.to_vec(), mat.key.to_vec(), &format!("client {}", c.idx))?;
        // the two entry points are two ways to take part in ONE sharing: as soon as the triple has t shares, taken
        // alternately from Message::generate's reports and from share_with_local_randomness, they must combine
        if let Some(m) = sta_rs::Message::from_bytes(&s.bytes) {
            let v = self.both_kinds.entry(triple.clone()).or_default();
            v.push(m.share);
            v.push(mat.share.clone());
            let t = g.threshold as usize;
            if t >= 2 && v.len() >= t && v.len() < t + 2 {
                if let Err(e) = sta_rs::share_recover(&v[..t]) {
                    return Err(Violation::new("c04.not_function", "entry_points_do_not_combine", format!("{} shares of {} taken alternately from Message::generate and share_with_local_randomness do not recover ({}): the two entry points build different sharings for one triple", t, show(&triple), e)));
                }
                ctx.stats.probe("shares_of_both_entry_points_combine");
            }
        }
        // a generator whose PUBLIC measurement field is reassigned is a generator for the new measurement
        if let Some((mut old, oe, ot)) = self.prev_gen.take() {
            old.x = crate::worlds::a::make_measurement(&g.measurement);
            let mut r_old = [0u8; 32];
            old.sample_local_randomness(&mut r_old);
            let fresh = MessageGenerator::new(crate::worlds::a::make_measurement(&g.measurement), ot, &oe);
            let mut r_new = [0u8; 32];
            fresh.sample_local_randomness(&mut r_new);
            if r_old != r_new {
                return Err(Violation::new("c04.not_function", "measurement_reassigned", format!("a generator whose public field x was set to {} after it had been used for another measurement derives other randomness than a fresh generator for the same (measurement, epoch, threshold)", hex_short(&g.measurement))));
            }
            ctx.stats.probe("reassigned_generator_agrees");
        }
        self.prev_gen = Some((mg, g.epoch.clone(), g.threshold));
        // every share has its own evaluation point
        let x2 = layout::parse_share(&mat.share.to_bytes()).map(|p| p.x);
        for x in [Some(pr.share.x.clone()), x2].into_iter().flatten() {
            if !self.points.insert(x.clone()) {
                return Err(Violation::new("c04.point_repeat", "point_repeat", format!("client {}: share evaluation point {} already used by an earlier share in this history", c.idx, x)));
            }
        }
        ctx.stats.probe("points_checked");
        Ok(())
    }
    fn on_tick(&mut self, ctx: &mut Ctx, w: &WorldA) -> Result<(), Violation> {
        self.inner.on_tick(ctx, w)
    }
    fn at_quiescence(&mut self, ctx: &mut Ctx, w: &WorldA) -> Result<(), Violation> {
        self.inner.at_quiescence(ctx, w)?;
        // key after recovery == key the clients derived
        for (gid, seed) in &self.inner.seed {
            let g = &w.groups[*gid];
            let mut key = vec![0u8; 16];
            derive_ske_key(seed, &g.epoch, &mut key);
            let triple: Triple = (g.measurement.clone(), g.epoch.clone(), g.threshold);
            if let Some((_, _, k)) = self.table.get(&triple) {
                if k != &key {
                    return Err(Violation::new("c04.not_function", "key_after_recovery", format!("the key derived from the recovered message differs from the clients' key for {}", show(&triple))));
                }
                ctx.stats.probe("keys_confirmed_by_recovery");
            }
        }
        // randomness-only part of the family: thresholds whose little/big-endian or shifted encodings could be confused
        let base = &w.groups[0];
        let t = base.threshold;
        let mut seen: BTreeMap<Vec<u8>, u32> = BTreeMap::new();
        for tt in [t, t.swap_bytes(), t << 8, t << 16, t << 24, t | 0x100, t | 0x1_0000, t | 0x8000_0000, !t, t.wrapping_add(1), 0, 1, 2, 255, 256, u32::MAX] {
            let mg = MessageGenerator::new(SingleMeasurement::new(&base.measurement), tt, &base.epoch);
            let mut rnd = [0u8; 32];
            mg.sample_local_randomness(&mut rnd);
            if let Some(prev) = seen.insert(rnd.to_vec(), tt) {
                if prev != tt {
                    return Err(Violation::new("c04.collision", "randomness_threshold_encoding", format!("thresholds {} and {} give the same local randomness for m={} e={}", prev, tt, hex_short(&base.measurement), hex_short(&base.epoch))));
                }
            }
            if let Some(other) = self.by_rnd.get(&rnd.to_vec()) {
                if other != &(base.measurement.clone(), base.epoch.clone(), tt) {
                    return Err(Violation::new("c04.collision", "randomness", format!("threshold {} collides with {}", tt, show(other))));
                }
            }
        }
        ctx.stats.probe("threshold_encoding_family_checked");
        if self.table.len() >= 2 && ctx.stats.probes.get("agreements_checked").copied().unwrap_or(0) > 0 {
            ctx.stats.nontrivial = true;
        }
        Ok(())
    }
}

impl Property for C04 {
    fn id(&self) -> &'static str {
        "C04"
    }
    fn world(&self) -> &'static str {
        "A (STARLite clients, fault-free transport)"
    }
    fn rule(&self) -> &'static str {
        "one run = a world-A history of independent STARLite clients (own entropy streams, no communication) over a family of CONFUSABLE triples around one base string: all splits (s[..i], s[i..]), (m,e)/(m||e,'')/('',m||e), thresholds t, t^1, t^(1<<k), t+256, threshold bytes appended to the measurement, 1..4+ clients per triple with different aux; history tables triple -> (randomness, tag, key) must be a function (all clients agree; report tag == WASM-material tag; key after recovery == clients' key) and injective (no two triples share randomness, tag or key); all share points in the history pairwise distinct; complete groups must recover (C01 oracle armed). The confusable family is input generation; the simulator contributes independent parties with controlled entropy and the history tables. non-trivial = >= 2 triples in the table and at least one cross-client agreement checked"
    }
    fn runs(&self, thorough: bool) -> u64 {
        if thorough { 100_000 } else { 3_000 }
    }
    fn run(&self, ctx: &mut Ctx) -> Result<(), Violation> {
        let mut gen = GenCfg::standard(ctx.thorough);
        gen.confusable = ctx.ch.chance(4, 5);
        gen.entropy_failure = 40;
        gen.max_groups = 8;
        gen.max_clients_total = 40;
        gen.thresholds = vec![1, 2, 2, 3, 3, 4, 5, 8, 16];
        gen.count_offsets = vec![-1, 0, 0, 1, 2];
        gen.sources = vec![0];
        gen.aux_kinds = vec![-1, 0, 1, 20, 300];
        gen.meas_lens = vec![0, 1, 2, 5, 11, 32];
        let net = NetCfg { drop: 0, dup: 0, replay: 0, misdeliver: 0, corrupt: 0, min_latency_us: 1_000, jitter_us: 200_000, long_delay: 0, long_delay_us: 0 };
        let mut w = WorldA::build(ctx, gen, net, false);
        let mut o = Oracle::default();
        w.run(ctx, &mut o)
    }
    fn real_components(&self) -> Vec<&'static str> {
        vec!["sta_rs::MessageGenerator::{sample_local_randomness, share_with_local_randomness}", "Message::generate", "share_recover", "derive_ske_key", "adss", "star-sharks"]
    }
    fn stub_components(&self) -> Vec<&'static str> {
        vec!["network (fault-free here)", "OS entropy source", "client driver"]
    }
    fn assumptions(&self) -> Vec<&'static str> {
        vec!["collisions of honest 128/256-bit values by chance are ignored (<= 2^-64 per comparison)"]
    }
    fn key_probes(&self) -> Vec<&'static str> {
        vec!["agreements_checked", "triples_in_table", "keys_confirmed_by_recovery", "threshold_encoding_family_checked", "points_checked"]
    }
}
