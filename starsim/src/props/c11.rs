//! C11 — forward security: a punctured key retains nothing that evaluates
//! punctured tags (DESIGN.md §4 C11). World C, servers registered for all 256
//! tags; the exported key state is inspected through a serde mirror, attacked
//! (punctured list emptied, re-imported) and re-derived independently.
use crate::choices::mix;
use crate::ev;
use crate::kernel::{Ctx, Fate, Net, NetCfg, Violation};
use crate::models::ggm_ref::{self, MState};
use crate::runner::Property;
use ppoprf::ppoprf as pp;
use std::collections::BTreeSet;

pub struct C11;

fn tag_has_prefix(x: u8, bits: &[bool]) -> bool {
    let xb = ggm_ref::bits_of(x);
    bits.len() <= 8 && xb[..bits.len()] == bits[..]
}

/// All structural checks on one exported state.
pub fn inspect(ctx: &mut Ctx, blob: &[u8], punctured: &BTreeSet<u8>, server: &pp::Server, when: &str) -> Result<MState, Violation> {
    // a drift of the key-state layout is a HARNESS problem (exit 2), never a property violation
    let st = match ggm_ref::parse_state(blob) {
        Ok(st) => st,
        Err(e) => panic!("exported key state does not parse with the mirror layout (update models/ggm_ref.rs): {}", e),
    };
    if ggm_ref::encode_state(&st) != blob {
        panic!("mirror does not re-serialise the exported state bit-identically (layout drift: update models/ggm_ref.rs)");
    }
    let prefixes: Vec<Vec<bool>> = st.ggm_key.prefixes.iter().map(|(p, _)| p.bits.iter().map(|b| *b).collect()).collect();
    // (i) no retained prefix lies on the path to a punctured input
    for &x in punctured {
        for (i, p) in prefixes.iter().enumerate() {
            if tag_has_prefix(x, p) {
                return Err(Violation::new(
                    "c11.ancestor_retained",
                    "ancestor_retained",
                    format!("{}: tag {} is punctured but the exported state retains the seed of a tree node of depth {} on its path (prefix #{}): the punctured value can be recomputed", when, x, p.len(), i),
                ));
            }
        }
    }
    // (ii) prefix-free, and covering exactly the complement of the punctured set
    for x in 0..=255u8 {
        let covering = prefixes.iter().filter(|p| tag_has_prefix(x, p)).count();
        let expect = if punctured.contains(&x) { 0 } else { 1 };
        if covering != expect {
            return Err(Violation::new(
                "c11.cover",
                if covering > expect { "overlapping_prefixes" } else { "uncovered_live_tag" },
                format!("{}: tag {} is covered by {} retained prefixes, expected {} (punctured: {})", when, x, covering, expect, punctured.contains(&x)),
            ));
        }
    }
    // (iv) independent GGM descent from the exported seeds reproduces the server
    let probe = ggm_ref::hash_to_group(b"c11 probe");
    let probe_pt = pp::Point::from(probe);
    let mut live = 0usize;
    let mut disagree: Vec<u8> = Vec::new();
    for x in 0..=255u8 {
        let reference = ggm_ref::reference_eval(&st, x, &probe);
        let real = server.eval(&probe_pt, x, false).ok().map(|e| *e.output.as_bytes());
        if punctured.contains(&x) {
            if reference.is_some() {
                return Err(Violation::new("c11.ancestor_retained", "reference_evaluates", format!("{}: the exported seeds alone evaluate punctured tag {}", when, x)));
            }
            if real.is_some() {
                return Err(Violation::new("c11.punctured_evaluates", "key_holder_evaluates", format!("{}: the key holder itself still evaluates punctured tag {} although the exported state has no node for it: material outside the exported key state survives", when, x)));
            }
        } else {
            live += 1;
            if real.is_none() {
                return Err(Violation::new("c11.cover", "live_tag_refused", format!("{}: the server refuses live tag {}", when, x)));
            }
            if reference != real {
                disagree.push(x);
            }
        }
    }
    if !disagree.is_empty() {
        if disagree.len() == live {
            // systematic disagreement = the PRG / key derivation was changed as a whole (e.g. another
            // domain-separation label): that does not break the property. Recorded, not reported;
            // exporter/importer agreement is C14's check.
            ctx.stats.probe("independent_descent_systematically_differs");
        } else {
            return Err(Violation::new(
                "c11.model_mismatch",
                "model_mismatch",
                format!("{}: for {} of {} live tags (e.g. {}) the seeds in the exported state do not produce the server's answers: the retained material is not what the key holder evaluates with", when, disagree.len(), live, disagree[0]),
            ));
        }
    } else {
        ctx.stats.probe("independent_descent_agrees");
    }
    ctx.stats.probe("states_inspected");
    Ok(st)
}

/// (iii) the attack: empty the punctured list, re-import, evaluate every punctured tag
pub fn tamper_attack(ctx: &mut Ctx, st: &MState, punctured: &BTreeSet<u8>, when: &str) -> Result<(), Violation> {
    let mut t = st.clone();
    t.ggm_key.punctured.clear();
    let blob = ggm_ref::encode_state(&t);
    let mut attacker = ctx.os.with_node(66, || pp::Server::new(vec![])).map_err(|e| Violation::new("c11.setup", "setup", e.to_string()))?;
    let ks: pp::ServerKeyState = bincode::deserialize(&blob).map_err(|e| Violation::new("c11.setup", "tampered_import", e.to_string()))?;
    attacker.set_private_key(ks);
    let probe = pp::Point::from(ggm_ref::hash_to_group(b"c11 attacker probe"));
    for &x in punctured {
        if attacker.eval(&probe, x, false).is_ok() {
            return Err(Violation::new(
                "c11.tamper_evaluates",
                "tamper_evaluates",
                format!("{}: a party holding the post-puncture state (with the punctured list emptied) evaluates punctured tag {}: puncturing only black-lists, key material survives", when, x),
            ));
        }
    }
    ctx.stats.probe("tamper_attacks_refused");
    Ok(())
}

impl Property for C11 {
    fn id(&self) -> &'static str {
        "C11"
    }
    fn world(&self) -> &'static str {
        "C (randomness service): exporter, wire, importer; servers registered for all 256 tags"
    }
    fn rule(&self) -> &'static str {
        "one run = a server registered for all 256 tags driven through a drawn puncture history (orders: uniform, ascending, descending, sibling-first, subtree-last; lengths 1..256); at drawn points the key state is exported (get_private_key -> bincode), crosses the simulated wire (dup/delay) and is imported into a fresh instance which is then driven further. On every exported blob: (i) no retained prefix is a prefix of a punctured input, (ii) retained prefixes are prefix-free and cover exactly the unpunctured inputs, (iii) tamper attack - punctured list emptied, re-imported into a fresh server, every punctured tag must still fail, (iv) an independent GGM descent (Strobe PRG) from the exported seeds reproduces the server's outputs for live tags and has no starting node for punctured ones. non-trivial = >= 3 punctures inspected and the importer driven further; states = distinct punctured-set hashes at export"
    }
    fn runs(&self, thorough: bool) -> u64 {
        if thorough { 10_000 } else { 200 }
    }
    fn run(&self, ctx: &mut Ctx) -> Result<(), Violation> {
        let all: Vec<u8> = (0..=255u8).collect();
        let mut server = ctx.os.with_node(2, || pp::Server::new(all.clone())).map_err(|e| Violation::new("c11.setup", "setup", e.to_string()))?;
        let mut punctured: BTreeSet<u8> = BTreeSet::new();
        let ord: Vec<u8> = match ctx.ch.draw(6) {
            0 => all.clone(),
            1 => all.iter().rev().copied().collect(),
            2 => {
                let b = ctx.ch.draw(256) as u8;
                (0..=255u8).map(|d| b ^ d).collect()
            }
            3 => {
                let bit = ctx.ch.draw(8) as u8;
                let mut a: Vec<u8> = (0..=255u8).filter(|x| (x >> bit) & 1 == 0).collect();
                a.extend((0..=255u8).filter(|x| (x >> bit) & 1 == 1));
                a
            }
            _ => ctx.ch.permutation(256).into_iter().map(|i| i as u8).collect(),
        };
        let n_punct = match ctx.ch.draw(5) {
            0 => 256,
            1 => 1 + ctx.ch.index(4),
            _ => 4 + ctx.ch.index(if ctx.thorough { 120 } else { 40 }),
        };
        let mut net = Net::new(NetCfg { drop: 0, dup: 200, replay: 0, misdeliver: 0, corrupt: 0, min_latency_us: 1000, jitter_us: 5000, long_delay: 0, long_delay_us: 0 });
        let mut exports = 0usize;
        // a same-key instance that lags behind (the previous generation, not told about later punctures)
        let mut lagging: Option<(pp::Server, BTreeSet<u8>)> = None;
        // the tag the lagging instance evaluated most recently (its very last operation)
        let mut lag_last_eval: Option<u8> = None;
        let lag_probe = pp::Point::from(ggm_ref::hash_to_group(b"c11 lagging probe"));
        let export_every = 1 + ctx.ch.index(12);
        let mut generation = 0u32;
        for (i, &x) in ord.iter().take(n_punct).enumerate() {
            server.puncture(x).map_err(|e| Violation::new("c11.setup", "puncture", format!("puncture {} failed: {}", x, e)))?;
            punctured.insert(x);
            if let Some((lag, lp)) = &lagging {
                if !lp.contains(&x) {
                    // the lagging instance legitimately still answers for x (it holds the older state) ...
                    let _ = lag.eval(&lag_probe, x, false);
                    lag_last_eval = Some(x);
                    // ... which must not bring x back for the instance that punctured it
                    if server.eval(&lag_probe, x, false).is_ok() {
                        return Err(Violation::new("c11.punctured_evaluates", "revived_by_lagging_instance", format!("tag {} was punctured on the leader, then evaluated on a lagging same-key instance, and the leader evaluates it again: punctured key material survives outside the key (shared state between instances)", x)));
                    }
                    ctx.stats.probe("lagging_instance_probes");
                }
            }
            let last = i + 1 == n_punct;
            if (i + 1) % export_every == 0 || last || ctx.ch.chance(1, 16) {
                let when = format!("after {} punctures (last {})", punctured.len(), x);
                let blob = bincode::serialize(&server.get_private_key()).map_err(|e| Violation::new("c11.setup", "export", e.to_string()))?;
                let st = inspect(ctx, &blob, &punctured, &server, &when)?;
                tamper_attack(ctx, &st, &punctured, &when)?;
                exports += 1;
                ctx.stats.state(punctured.iter().fold(0u64, |a, t| mix(a, *t as u64)));
                // the blob crosses the wire to a fresh instance which takes over (crash / replication)
                if ctx.ch.chance(1, 2) {
                    // the state travels as bincode, or (a third of the time) as JSON: the key state is a plain
                    // serde value and a deployment may pick either; what arrives must be the same state
                    let json_wire = ctx.ch.chance(1, 3);
                    let wire = if json_wire {
                        ctx.stats.probe("key_state_sent_as_json");
                        serde_json::to_vec(&server.get_private_key()).map_err(|e| Violation::new("c11.setup", "export_json", e.to_string()))?
                    } else {
                        blob.clone()
                    };
                    let fate = net.send(ctx, 2, 3 + generation, 4, wire);
                    if let Fate::Sent(copies) = fate {
                        generation += 1;
                        // the importer is a fresh instance, or (half of the time, when there is one) the
                        // lagging SAME-KEY instance that now catches up by importing the newer state
                        let reuse_lagging = lagging.is_some() && ctx.ch.chance(1, 2);
                        let mut importer = if reuse_lagging {
                            ctx.stats.probe("lagging_instance_caught_up_by_import");
                            lagging.take().unwrap().0
                        } else {
                            ctx.os.with_node(3 + generation as u64, || pp::Server::new(vec![])).map_err(|e| Violation::new("c11.setup", "setup", e.to_string()))?
                        };
                        for (_, p) in copies {
                            // duplicated deliveries import the same state twice
                            let ks: pp::ServerKeyState = if json_wire {
                                serde_json::from_slice(&p.bytes).map_err(|e| Violation::new("c11.import", "import_json", format!("a key state exported as JSON does not import: {}", e)))?
                            } else {
                                bincode::deserialize(&p.bytes).map_err(|e| Violation::new("c11.import", "import", e.to_string()))?
                            };
                            importer.set_private_key(ks);
                        }
                        if reuse_lagging {
                            // the FIRST thing asked of the instance that just caught up is the tag it
                            // evaluated last while it was lagging (now punctured in the imported state)
                            if let Some(x) = lag_last_eval.take() {
                                if punctured.contains(&x) && importer.eval(&lag_probe, x, false).is_ok() {
                                    return Err(Violation::new("c11.punctured_evaluates", "stale_after_import", format!("an instance that evaluated tag {} while lagging still evaluates it right after importing the state in which it is punctured", x)));
                                }
                                ctx.stats.probe("first_request_after_catch_up_checked");
                            }
                        }
                        let blob2 = bincode::serialize(&importer.get_private_key()).map_err(|e| Violation::new("c11.setup", "export", e.to_string()))?;
                        let st2 = inspect(ctx, &blob2, &punctured, &importer, &format!("importer, {}", when))?;
                        tamper_attack(ctx, &st2, &punctured, &format!("importer, {}", when))?;
                        let old = std::mem::replace(&mut server, importer);
                        lagging = Some((old, punctured.clone()));
                        ctx.stats.probe("importer_took_over");
                        ev!(ctx, "importer generation {} took over {}", generation, when);
                    }
                }
            }
        }
        if punctured.len() >= 3 && exports >= 1 && generation >= 1 {
            ctx.stats.nontrivial = true;
        }
        if punctured.len() == 256 {
            ctx.stats.probe("all_256_punctured_state_inspected");
        }
        Ok(())
    }
    fn real_components(&self) -> Vec<&'static str> {
        vec!["ppoprf::ppoprf::Server::{new, puncture, eval, get_private_key, set_private_key}", "ppoprf::ggm::{GGM, GGMPuncturableKey} incl. its serde layout", "bincode"]
    }
    fn stub_components(&self) -> Vec<&'static str> {
        vec!["network between exporter and importer", "OS entropy source", "serde mirror of the key-state layout + independent GGM descent (models/ggm_ref.rs)"]
    }
    fn assumptions(&self) -> Vec<&'static str> {
        vec!["the mirror struct follows the field order of GGMPuncturableKey / ServerKeyState; a layout change is reported as a harness error (exit 2), not as a property violation", "memory zeroisation of dropped seeds is not observable here"]
    }
    fn key_probes(&self) -> Vec<&'static str> {
        vec!["states_inspected", "tamper_attacks_refused", "importer_took_over", "all_256_punctured_state_inspected", "independent_descent_agrees"]
    }
}
