//! C09 — data from other parties never crashes the receiver (DESIGN.md §4 C09).
//! Every receiver callback runs under catch_unwind; the transport corrupts
//! every delivery and substitutes structurally valid degenerate values.
use crate::faults::{self, Layout};
use crate::kernel::{Ctx, NetCfg, Violation};
use crate::models::layout::{self, PShare};
use crate::models::shamir_big;
use crate::runner::{guarded, norm_loc, Property};
use crate::worlds::a::{AOracle, GenCfg, WorldA};
use base64::{engine::Engine as _, prelude::BASE64_STANDARD};
use num_bigint::BigUint;
use ppoprf::ppoprf as pp;
use std::convert::TryFrom;

pub struct C09;

fn viol(entry: &str, loc: &str, msg: &str, input: &[u8]) -> Violation {
    Violation::new(
        &format!("c09.panic[{}]", entry),
        format!("{}@{}", entry, norm_loc(loc)),
        format!("{} panicked at {} ({}) on a {}-byte input {}", entry, loc, msg, input.len(), crate::choices::hex(&input[..input.len().min(96)])),
    )
}

macro_rules! rx {
    ($ctx:expr, $entry:expr, $input:expr, $body:expr) => {{
        $ctx.stats.probe_n("receiver_calls", 1);
        match guarded(|| $body) {
            Ok(r) => r,
            Err((loc, msg)) => return Err(viol($entry, &loc, &msg, $input)),
        }
    }};
}

/// every share/report decoder on one delivered byte string
pub fn decode_all(ctx: &mut Ctx, b: &[u8]) -> Result<(Option<sta_rs::Message>, Option<sta_rs::Share>), Violation> {
    let m = rx!(ctx, "Message::from_bytes", b, sta_rs::Message::from_bytes(b));
    let s = rx!(ctx, "sta_rs::Share::from_bytes", b, sta_rs::Share::from_bytes(b));
    let a = rx!(ctx, "adss::Share::from_bytes", b, adss::Share::from_bytes(b));
    let _ = rx!(ctx, "load_bytes", b, sta_rs::load_bytes(b).map(|x| x.len()));
    let k = rx!(ctx, "star_sharks::Share::try_from", b, star_sharks::Share::try_from(b).ok());
    // state cell: which decoders accept x input length class
    ctx.stats.state(crate::choices::mix(
        (m.is_some() as u64) | (s.is_some() as u64) << 1 | (a.is_some() as u64) << 2 | (k.is_some() as u64) << 3,
        (b.len().min(1023) / 8) as u64,
    ));
    if m.is_some() {
        ctx.stats.probe("decoder_accepted_corrupted_report");
    }
    if s.is_some() || a.is_some() {
        ctx.stats.probe("decoder_accepted_as_share");
    }
    if let Some(k) = k.as_ref() {
        // a sharks share straight from the wire goes to Sharks::recover with hostile thresholds
        for t in [0u32, 1, 2, u32::MAX] {
            let ks = vec![k.clone(), k.clone()];
            let _ = rx!(ctx, "Sharks::recover", b, star_sharks::Sharks(t).recover(&ks).is_ok());
        }
    }
    // ... and the public interpolate, which does not de-duplicate: the same point twice (and twice with another
    // value at that point) is data from other parties like any other. The point-and-values part S of a decoded
    // ADSS share is such a share.
    let k2 = k.clone().or_else(|| {
        a.as_ref().and_then(|a| {
            let w = a.to_bytes();
            crate::models::layout::parse_share(&w).and_then(|p| star_sharks::Share::try_from(&w[p.offs[0]..p.offs[0] + p.offs[1]]).ok())
        })
    });
    if let Some(k) = k2 {
        let mut forged = k.clone();
        if let Some(y0) = forged.y.first_mut() {
            *y0 += star_sharks::Fp::from(1u64);
        }
        for coll in [vec![k.clone(), k.clone()], vec![k.clone(), forged.clone()], vec![k.clone(), forged, k.clone()]] {
            let _ = rx!(ctx, "star_sharks::interpolate", b, star_sharks::interpolate(&coll).is_ok());
        }
    }
    Ok((m, s))
}

struct Oracle {
    /// shares the aggregator decoded (honest or corrupted-but-accepted)
    shares: Vec<(sta_rs::Share, Vec<u8>)>,
    lines: Vec<String>,
}

fn degenerate_shares(ctx: &mut Ctx, honest: &PShare) -> Vec<Vec<u8>> {
    let mut out = Vec::new();
    let p = shamir_big::p();
    for thr in [0u32, 1, 2, honest.threshold, u32::MAX] {
        // no y at all
        let mut s = honest.clone();
        s.threshold = thr;
        s.ys.clear();
        out.push(layout::encode_share(&s));
        // one y, x = 0
        let mut s = honest.clone();
        s.threshold = thr;
        s.x = BigUint::from(0u32);
        out.push(layout::encode_share(&s));
        // x = p-1, many y
        let mut s = honest.clone();
        s.threshold = thr;
        s.x = &p - BigUint::from(1u32);
        s.ys = vec![BigUint::from(7u32); 1 + ctx.ch.index(5)];
        out.push(layout::encode_share(&s));
        // empty C and D
        let mut s = honest.clone();
        s.threshold = thr;
        s.c.clear();
        s.d.clear();
        out.push(layout::encode_share(&s));
    }
    // S chunk of 24..47 bytes (x and a partial y)
    let mut raw = layout::encode_share(honest);
    let [s0, sl, ..] = honest.offs;
    if sl >= 48 {
        let cut = 24 + ctx.ch.index(24);
        let mut b = raw[..4].to_vec();
        b.extend_from_slice(&(cut as u32).to_le_bytes());
        b.extend_from_slice(&raw[s0..s0 + cut]);
        b.extend_from_slice(&raw[s0 + sl..]);
        out.push(b);
    }
    raw.truncate(3);
    out.push(raw);
    out.push(Vec::new());
    out
}

impl Oracle {
    fn combine(&mut self, ctx: &mut Ctx) -> Result<(), Violation> {
        if self.shares.is_empty() {
            return Ok(());
        }
        // drawn collections mixing everything the aggregator has decoded
        let rounds = if ctx.thorough { 6 } else { 3 };
        for _ in 0..rounds {
            let n = 1 + ctx.ch.index(self.shares.len().min(8));
            let mut coll = Vec::new();
            let mut raw = Vec::new();
            for _ in 0..n {
                let i = ctx.ch.index(self.shares.len());
                coll.push(self.shares[i].0.clone());
                raw.extend_from_slice(&self.shares[i].1);
            }
            let ok = rx!(ctx, "share_recover", &raw, sta_rs::share_recover(&coll).is_ok());
            if ok {
                ctx.stats.probe("share_recover_ok_on_mixed_collection");
            }
            // the same collection at the adss layer
            let inner: Vec<adss::Share> = coll.iter().filter_map(|s| adss::Share::from_bytes(&s.to_bytes())).collect();
            let _ = rx!(ctx, "adss::recover", &raw, adss::recover(&inner).is_ok());
        }
        // WASM grouping call: delivered share bytes as base64 lines, plus junk lines
        if !self.lines.is_empty() {
            let n = 1 + ctx.ch.index(self.lines.len().min(6));
            let mut ls: Vec<String> = (0..n).map(|_| self.lines[ctx.ch.index(self.lines.len())].clone()).collect();
            match ctx.ch.draw(6) {
                0 => ls.push(String::new()),
                1 => ls.push("!!!not-base64".to_string()),
                2 => ls.push("AAAA".to_string()),
                3 => ls.insert(0, "=".to_string()),
                _ => {}
            }
            let joined = ls.join("\n");
            for epoch in ["", "t", "é"] {
                let r = rx!(ctx, "star_wasm::group_shares", joined.as_bytes(), star_wasm::group_shares(&joined, epoch));
                if r.is_some() {
                    ctx.stats.probe("group_shares_some");
                }
            }
        }
        Ok(())
    }
}

impl AOracle for Oracle {
    fn on_deliver(&mut self, ctx: &mut Ctx, w: &WorldA, idx: usize) -> Result<(), Violation> {
        let d = &w.delivered[idx];
        let origin = w.origin(d).bytes.clone();
        let mut inputs: Vec<Vec<u8>> = vec![d.bytes.clone()];
        // the share chunk alone, as an aggregator using the WASM flow would receive it
        if let Some(pr) = layout::parse_report(&origin) {
            let share_bytes = origin[pr.share_off..pr.share_off + pr.share_len].to_vec();
            let lay = layout::share_fields(&share_bytes, 0);
            let pool: Vec<Vec<u8>> = self.shares.iter().rev().take(4).map(|s| s.1.clone()).collect();
            let (c, k) = faults::corrupt(ctx, &share_bytes, &lay, faults::KINDS, &pool);
            if k != "noop" {
                ctx.stats.fault(k);
            }
            inputs.push(c);
            inputs.push(share_bytes);
            if ctx.ch.chance(1, 3) {
                for g in degenerate_shares(ctx, &pr.share) {
                    ctx.stats.fault("degenerate_share");
                    inputs.push(g);
                }
            }
            // targeted: every length/threshold field set to each boundary value (thorough: all; quick: a drawn field)
            let rl = layout::report_fields(&origin);
            let fields: Vec<usize> = if ctx.thorough { rl.len_fields.clone() } else { vec![*ctx.ch.pick(&rl.len_fields)] };
            for off in fields {
                let cur = u32::from_le_bytes([origin[off], origin[off + 1], origin[off + 2], origin[off + 3]]);
                for v in faults::lenfield_values(cur, origin.len() - off - 4) {
                    let mut b = origin.clone();
                    b[off..off + 4].copy_from_slice(&v.to_le_bytes());
                    ctx.stats.fault("lenfield_enumerated");
                    inputs.push(b);
                }
            }
            // every short prefix (0..12 bytes) and a drawn one
            for k in 0..12.min(origin.len()) {
                inputs.push(origin[..k].to_vec());
            }
            ctx.stats.fault("truncate_enumerated");
        }
        for b in inputs {
            let (m, s) = decode_all(ctx, &b)?;
            if let Some(m) = m {
                self.shares.push((m.share.clone(), m.share.to_bytes()));
                // the plaintext framing decoder also sees attacker-chosen bytes
                let ct = m.ciphertext.to_bytes();
                let _ = rx!(ctx, "load_bytes", &ct, sta_rs::load_bytes(&ct).map(|x| x.len()));
            }
            if let Some(s) = s {
                self.lines.push(BASE64_STANDARD.encode(s.to_bytes()));
                self.shares.push((s.clone(), s.to_bytes()));
            } else if ctx.ch.chance(1, 4) {
                self.lines.push(BASE64_STANDARD.encode(&b));
            }
            if self.shares.len() > 64 {
                self.shares.drain(..32);
            }
            if self.lines.len() > 64 {
                self.lines.drain(..32);
            }
        }
        Ok(())
    }
    fn on_tick(&mut self, ctx: &mut Ctx, _w: &WorldA) -> Result<(), Violation> {
        self.combine(ctx)
    }
    fn at_quiescence(&mut self, ctx: &mut Ctx, _w: &WorldA) -> Result<(), Violation> {
        self.combine(ctx)
    }
}

// ---------------------------------------------------------------------------
// PPOPRF receivers

const BAD_POINTS: &[[u8; 32]] = &[[0xff; 32], [0x01; 32], {
    let mut b = [0u8; 32];
    b[0] = 2; // y = 2 is not on the curve's ristretto image
    b
}];

fn b64(b: &[u8]) -> String {
    BASE64_STANDARD.encode(b)
}

fn ppoprf_receivers(ctx: &mut Ctx) -> Result<(), Violation> {
    const SRV: u64 = 2;
    const CLI: u64 = 100;
    let ntags = 1 + ctx.ch.index(4);
    let mds: Vec<u8> = (0..ntags).map(|i| (i * 3) as u8).collect();
    let server = ctx.os.with_node(SRV, || pp::Server::new(mds.clone())).map_err(|e| Violation::new("c09.setup", "setup", e.to_string()))?;
    let pk_bytes = server.get_public_key().serialize_to_bincode().unwrap();
    let inlen = ctx.ch.index(40);
    let input = ctx.ch.bytes(inlen);
    let md = *ctx.ch.pick(&mds);
    let (point, _r) = ctx.os.with_node(CLI, || pp::Client::blind(&input));
    let point_json = serde_json::to_vec(&point).unwrap();
    let eval = ctx.os.with_node(SRV, || server.eval(&point, md, true)).map_err(|e| Violation::new("c09.setup", "setup", e.to_string()))?;
    let eval_json = serde_json::to_vec(&eval).unwrap();
    let proof_bytes = eval.proof.as_ref().unwrap().serialize_to_bincode().unwrap();
    let generic: &[&'static str] = &["bitflip", "byteset00", "bytesetff", "byteinc", "truncate", "extend", "garbage", "splice"];

    // --- public key: byte-level faults + undecodable elements in each position
    let mut pk_variants: Vec<Vec<u8>> = vec![pk_bytes.clone()];
    let pk_layout = Layout { len_fields: vec![], fields: vec![("base", 0, 32), ("count", 32, 40), ("entry", 40, pk_bytes.len())] };
    for _ in 0..3 {
        let (b, k) = faults::corrupt(ctx, &pk_bytes, &pk_layout, generic, &[eval_json.clone()]);
        if k != "noop" {
            ctx.stats.fault(k);
        }
        pk_variants.push(b);
    }
    for bad in BAD_POINTS {
        let mut b = pk_bytes.clone();
        b[..32].copy_from_slice(bad);
        pk_variants.push(b);
        ctx.stats.fault("undecodable_pk_base");
        for e in 0..ntags {
            let mut b = pk_bytes.clone();
            let off = 40 + e * 33 + 1;
            b[off..off + 32].copy_from_slice(bad);
            pk_variants.push(b);
            ctx.stats.fault("undecodable_pk_tag_point");
        }
    }
    // count field: huge / zero
    for v in [0u64, 1, ntags as u64 + 1, u32::MAX as u64, u64::MAX] {
        let mut b = pk_bytes.clone();
        b[32..40].copy_from_slice(&v.to_le_bytes());
        pk_variants.push(b);
        ctx.stats.fault("pk_count_field");
    }
    let mut pks: Vec<pp::ServerPublicKey> = Vec::new();
    for b in &pk_variants {
        let r = rx!(ctx, "ServerPublicKey::load_from_bincode", b, pp::ServerPublicKey::load_from_bincode(b).ok());
        if let Some(pk) = r {
            pks.push(pk);
        }
    }
    // ServerPublicKey is publicly Deserialize: a key can also arrive through plain serde (bincode
    // without the size check, or JSON inside an application message)
    for b in &pk_variants {
        let r = rx!(ctx, "bincode->ServerPublicKey", b, bincode::deserialize::<pp::ServerPublicKey>(b).ok());
        if let Some(pk) = r {
            if let Ok(js) = serde_json::to_vec(&pk) {
                let r2 = rx!(ctx, "serde_json->ServerPublicKey", &js, serde_json::from_slice::<pp::ServerPublicKey>(&js).ok());
                if let Some(pk2) = r2 {
                    pks.push(pk2);
                }
            }
            pks.push(pk);
        }
    }
    ctx.stats.probe_n("pk_variants_accepted", pks.len() as u64);

    // --- proofs
    for _ in 0..3 {
        let (b, k) = faults::corrupt(ctx, &proof_bytes, &Layout::default(), generic, &[pk_bytes.clone()]);
        if k != "noop" {
            ctx.stats.fault(k);
        }
        let _ = rx!(ctx, "ProofDLEQ::load_from_bincode", &b, pp::ProofDLEQ::load_from_bincode(&b).is_ok());
    }
    for b in [vec![], vec![0xffu8; 64], vec![0xffu8; 65], vec![0u8; 63]] {
        let _ = rx!(ctx, "ProofDLEQ::load_from_bincode", &b, pp::ProofDLEQ::load_from_bincode(&b).is_ok());
    }

    // --- blinded points arriving at the server
    let mut points: Vec<pp::Point> = vec![point.clone()];
    let mut point_inputs: Vec<Vec<u8>> = Vec::new();
    for _ in 0..3 {
        let (b, k) = faults::corrupt(ctx, &point_json, &Layout::default(), generic, &[eval_json.clone()]);
        if k != "noop" {
            ctx.stats.fault(k);
        }
        point_inputs.push(b);
    }
    for bad in BAD_POINTS {
        point_inputs.push(serde_json::to_vec(&bad.to_vec()).unwrap());
        ctx.stats.fault("undecodable_request_point");
    }
    point_inputs.push(b"[]".to_vec());
    point_inputs.push(b"[1,2,3]".to_vec());
    point_inputs.push(b"null".to_vec());
    for b in &point_inputs {
        let r = rx!(ctx, "serde_json->Point", b, serde_json::from_slice::<pp::Point>(b).ok());
        if let Some(p) = r {
            for tag in [md, 255, 1] {
                let _ = rx!(ctx, "Server::eval", b, ctx.os.with_node(SRV, || server.eval(&p, tag, true).is_ok()));
                let _ = rx!(ctx, "Server::eval", b, server.eval(&p, tag, false).is_ok());
            }
            points.push(p);
        }
    }

    // --- evaluations arriving at the client
    let good: serde_json::Value = serde_json::from_slice(&eval_json).unwrap();
    let mut eval_inputs: Vec<Vec<u8>> = vec![eval_json.clone()];
    for _ in 0..3 {
        let (b, k) = faults::corrupt(ctx, &eval_json, &Layout::default(), generic, &[point_json.clone()]);
        if k != "noop" {
            ctx.stats.fault(k);
        }
        eval_inputs.push(b);
    }
    {
        let mut v = good.clone();
        v["proof"] = serde_json::Value::Null;
        eval_inputs.push(serde_json::to_vec(&v).unwrap());
        ctx.stats.fault("missing_proof");
        let mut v = good.clone();
        v.as_object_mut().unwrap().remove("proof");
        eval_inputs.push(serde_json::to_vec(&v).unwrap());
        for bad in BAD_POINTS {
            let mut v = good.clone();
            v["output"] = serde_json::Value::String(b64(bad));
            eval_inputs.push(serde_json::to_vec(&v).unwrap());
            ctx.stats.fault("undecodable_output_point");
        }
        let mut v = good.clone();
        v["output"] = serde_json::Value::String(b64(&[1u8; 31]));
        eval_inputs.push(serde_json::to_vec(&v).unwrap());
        let mut v = good.clone();
        v["output"] = serde_json::Value::String("%%%".into());
        eval_inputs.push(serde_json::to_vec(&v).unwrap());
        let mut v = good.clone();
        v["proof"]["c"] = serde_json::json!(vec![255u8; 32]);
        eval_inputs.push(serde_json::to_vec(&v).unwrap());
        ctx.stats.fault("noncanonical_scalar");
    }
    for b in &eval_inputs {
        let r = rx!(ctx, "serde_json->Evaluation", b, serde_json::from_slice::<pp::Evaluation>(b).ok());
        if let Some(e) = r {
            for pk in &pks {
                for p in &points {
                    for tag in [md, 254] {
                        let ok = rx!(ctx, "Client::verify", b, pp::Client::verify(pk, p, &e, tag));
                        if ok {
                            ctx.stats.probe("verify_true");
                        } else {
                            ctx.stats.probe("verify_false");
                        }
                    }
                }
            }
        }
    }
    Ok(())
}

impl Property for C09 {
    fn id(&self) -> &'static str {
        "C09"
    }
    fn level(&self) -> &'static str {
        "fault_enumeration"
    }
    fn world(&self) -> &'static str {
        "A + C receivers (aggregator, WASM grouping, randomness server, PPOPRF client)"
    }
    fn rule(&self) -> &'static str {
        "one run = a world-A history in which EVERY report delivery is corrupted by one drawn byte-level fault (bitflip/byteset/truncate/extend/lenfield/splice/fieldswap/garbage) or replaced by a structurally valid degenerate value, plus per delivery the enumeration of every boundary value in the length/threshold fields and every short prefix; each delivered string is handed to every decoder, decoded shares are pooled and recovered in drawn mixed collections (star, adss, sharks layers, WASM grouping); then a PPOPRF exchange whose public key, proof, request point and evaluation are corrupted / carry undecodable group elements / lack a proof. Oracle: no receiver unwinds. non-trivial = at least one corrupted input was ACCEPTED by a decoder and flowed on into recovery/verification; distinct = distinct event digests; states = (set of decoders that accept, input length / 8) cells"
    }
    fn runs(&self, thorough: bool) -> u64 {
        if thorough { 150_000 } else { 4_000 }
    }
    fn run(&self, ctx: &mut Ctx) -> Result<(), Violation> {
        let mut gen = GenCfg::standard(false);
        gen.max_groups = 3;
        gen.max_clients_total = 12;
        gen.thresholds = vec![1, 1, 2, 2, 3, 4];
        gen.meas_lens = vec![0, 1, 11, 32, 170];
        gen.aux_kinds = vec![-1, 0, 4, 200];
        gen.sources = vec![0, 1];
        gen.corrupt_kinds = faults::KINDS.to_vec();
        let net = NetCfg { drop: 0, dup: 100, replay: 0, misdeliver: 0, corrupt: 1000, min_latency_us: 1000, jitter_us: 50_000, long_delay: 0, long_delay_us: 0 };
        let mut w = WorldA::build(ctx, gen, net, false);
        let mut o = Oracle { shares: Vec::new(), lines: Vec::new() };
        w.run(ctx, &mut o)?;
        // GENUINE shares (valid encoding, threshold met, MAC verifies) of sharings whose message is not
        // the 32 bytes an honest STAR client shares: the length of the recovered message is chosen by
        // whoever dealt the shares
        {
            let ml = *ctx.ch.pick(&[0usize, 1, 5, 15, 16, 31, 33, 100]);
            let rl = *ctx.ch.pick(&[0usize, 1, 32]);
            let t = 1 + ctx.ch.draw(2) as u32;
            let (m, r) = (ctx.ch.bytes(ml), ctx.ch.bytes(rl));
            let mut lines: Vec<String> = Vec::new();
            let mut raw = Vec::new();
            for d in 0..t + 1 {
                if let Ok(sh) = ctx.os.with_node(900 + d as u64, || adss::Commune::new(t, m.clone(), r.clone(), None).share()) {
                    raw = sh.to_bytes();
                    lines.push(BASE64_STANDARD.encode(&raw));
                }
            }
            let joined = lines.join("\n");
            for epoch in ["", "t"] {
                let r = rx!(ctx, "star_wasm::group_shares", &raw, star_wasm::group_shares(&joined, epoch));
                if r.is_some() {
                    ctx.stats.probe("group_shares_on_genuine_shares_of_odd_length_messages");
                }
            }
        }
        // large inputs (beyond every documented limit) to every byte-level receiver
        if ctx.ch.chance(1, 4) {
            let n = *ctx.ch.pick(&[16_384usize, 16_385, 20_000, 70_000]);
            let mut big = ctx.ch.bytes(n);
            if ctx.ch.chance(1, 2) {
                // a well-formed honest prefix followed by junk
                if let Some(s) = w.sent.values().next() {
                    let k = s.bytes.len().min(big.len());
                    big[..k].copy_from_slice(&s.bytes[..k]);
                }
            }
            decode_all(ctx, &big)?;
            let _ = rx!(ctx, "ServerPublicKey::load_from_bincode", &big[..64], pp::ServerPublicKey::load_from_bincode(&big).is_ok());
            let _ = rx!(ctx, "ProofDLEQ::load_from_bincode", &big[..64], pp::ProofDLEQ::load_from_bincode(&big).is_ok());
            let _ = rx!(ctx, "serde_json->Evaluation", &big[..64], serde_json::from_slice::<pp::Evaluation>(&big).is_ok());
            let line = BASE64_STANDARD.encode(&big);
            let _ = rx!(ctx, "star_wasm::group_shares", &big[..64], star_wasm::group_shares(&line, "t").is_some());
            ctx.stats.fault("oversized_input");
        }
        ppoprf_receivers(ctx)?;
        let accepted = ctx.stats.probes.get("decoder_accepted_corrupted_report").copied().unwrap_or(0) + ctx.stats.probes.get("decoder_accepted_as_share").copied().unwrap_or(0);
        if accepted > 0 {
            ctx.stats.nontrivial = true;
        }
        Ok(())
    }
    fn real_components(&self) -> Vec<&'static str> {
        vec!["adss::Share::from_bytes", "sta_rs::Share::from_bytes", "Message::from_bytes", "load_bytes", "star_sharks::Share::try_from", "Sharks::recover", "adss::recover", "share_recover", "ServerPublicKey::load_from_bincode", "ProofDLEQ::load_from_bincode", "serde_json -> Point / Evaluation", "Server::eval", "Client::verify", "star_wasm::group_shares"]
    }
    fn stub_components(&self) -> Vec<&'static str> {
        vec!["network + corruption (starsim)", "OS entropy source", "client driver", "HTTP framing of the randomness service (only JSON bodies are real)"]
    }
    fn assumptions(&self) -> Vec<&'static str> {
        vec!["aborts (stack overflow, allocation failure) are not catchable in-process: the check script treats an abnormal exit of the batch as a violation", "built with overflow-checks = true so arithmetic overflow counts as a panic", "Client::unblind and Point::from(&[u8]) are not in the property's list of entry points"]
    }
    fn key_probes(&self) -> Vec<&'static str> {
        vec!["decoder_accepted_corrupted_report", "decoder_accepted_as_share", "share_recover_ok_on_mixed_collection", "pk_variants_accepted", "verify_true", "verify_false"]
    }
}
