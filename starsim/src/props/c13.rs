//! C13 — evaluation proofs are complete, sound against tampering, and never
//! reuse a nonce (DESIGN.md §4 C13). World C, verifiable mode; the wire
//! tampers with responses, requests, tags and public keys.
use crate::kernel::{Ctx, NetCfg, Violation};
use crate::props::c14::{inputs, ExchangeOracle};
use crate::runner::{guarded, Property};
use crate::worlds::c::{CCfg, COracle, Exchange, WorldC};
use curve25519_dalek::constants::RISTRETTO_BASEPOINT_POINT as G;
use curve25519_dalek::ristretto::{CompressedRistretto, RistrettoPoint};
use curve25519_dalek::scalar::Scalar;
use curve25519_dalek::traits::Identity;
use ppoprf::ppoprf as pp;
use std::collections::BTreeSet;

pub struct C13;

#[derive(Clone)]
struct Rec {
    pk_bytes: Vec<u8>,
    md: u8,
    p: [u8; 32],
    q: [u8; 32],
    c: [u8; 32],
    s: [u8; 32],
}

#[derive(Default)]
struct Oracle {
    /// long-history mode: hundreds of proofs in one run (nonce table over all of them), the
    /// tamper battery only on every 16th exchange
    long: bool,
    seen: u64,
    inner: ExchangeOracle,
    history: Vec<Rec>,
    commitments: BTreeSet<[u8; 32]>,
    /// honest (statement, proof) pairs: (pk_tag, P, Q, c, s)
    honest: BTreeSet<([u8; 32], [u8; 32], [u8; 32], [u8; 32], [u8; 32])>,
}

fn arr32(v: &serde_json::Value) -> [u8; 32] {
    let mut a = [0u8; 32];
    for (i, x) in v.as_array().expect("array").iter().enumerate().take(32) {
        a[i] = x.as_u64().unwrap_or(0) as u8;
    }
    a
}

/// pk layout (bincode): base[32] | count u64 | (md u8, point[32])*
fn pk_entry(pk: &[u8], md: u8) -> Option<usize> {
    let n = u64::from_le_bytes(pk[32..40].try_into().ok()?) as usize;
    (0..n).map(|i| 40 + 33 * i).find(|&o| pk[o] == md).map(|o| o + 1)
}

fn combined(pk: &[u8], md: u8) -> Option<[u8; 32]> {
    let off = pk_entry(pk, md)?;
    let b = CompressedRistretto::from_slice(&pk[..32]).ok()?.decompress()?;
    let t = CompressedRistretto::from_slice(&pk[off..off + 32]).ok()?.decompress()?;
    Some((b + t).compress().to_bytes())
}

fn build_eval(q: &[u8; 32], c: &[u8; 32], s: &[u8; 32]) -> Vec<u8> {
    use base64::{engine::Engine as _, prelude::BASE64_STANDARD};
    serde_json::to_vec(&serde_json::json!({"output": BASE64_STANDARD.encode(q), "proof": {"c": c.to_vec(), "s": s.to_vec()}})).unwrap()
}

fn point_neighbour(b: &[u8; 32]) -> Option<[u8; 32]> {
    let p = CompressedRistretto::from_slice(b).ok()?.decompress()?;
    Some((p + G).compress().to_bytes())
}
fn scalar_add(b: &[u8; 32], d: i8) -> [u8; 32] {
    let s = Scalar::from_bytes_mod_order(*b);
    let r = if d >= 0 { s + Scalar::from(d as u8) } else { s - Scalar::from((-d) as u8) };
    r.to_bytes()
}

impl Oracle {
    fn try_one(&mut self, ctx: &mut Ctx, what: &str, pk: &[u8], md: u8, p: &[u8; 32], q: &[u8; 32], c: &[u8; 32], s: &[u8; 32]) -> Result<(), Violation> {
        let pkv = match pp::ServerPublicKey::load_from_bincode(pk) {
            Ok(k) => k,
            Err(_) => return Ok(()),
        };
        let ev: pp::Evaluation = match serde_json::from_slice(&build_eval(q, c, s)) {
            Ok(e) => e,
            Err(_) => return Ok(()),
        };
        let point = pp::Point::from(&p[..]);
        let verdict = match guarded(|| pp::Client::verify(&pkv, &point, &ev, md)) {
            Ok(v) => v,
            Err(_) => {
                ctx.stats.probe("verify_panicked_left_to_C09");
                return Ok(());
            }
        };
        ctx.stats.probe("tampered_verifications");
        ctx.stats.state(crate::choices::mix(crate::choices::str_hash(what), verdict as u64));
        // the statement this (possibly tampered) tuple claims
        let stmt = combined(pk, md).map(|pt| (pt, *p, *q, *c, *s));
        let honest = stmt.map(|st| self.honest.contains(&st)).unwrap_or(false);
        if verdict && !honest {
            return Err(Violation::new(
                "c13.accepts_tampered",
                what.split(':').next().unwrap_or(what).to_string(),
                format!("Client::verify ACCEPTED a tampered evaluation ({}): no proof was honestly issued for the resulting statement (tag {})", what, md),
            ));
        }
        if !verdict && honest {
            return Err(Violation::new("c13.incomplete", "equivalent_statement_rejected", format!("verify rejected a tuple whose statement and proof are an honestly issued pair ({})", what)));
        }
        if verdict {
            ctx.stats.probe("substitution_gave_an_honest_statement_accepted");
        } else {
            ctx.stats.probe("tampered_rejected");
        }
        Ok(())
    }

    fn battery(&mut self, ctx: &mut Ctx, me: &Rec) -> Result<(), Violation> {
        let zero = [0u8; 32];
        let ident = RistrettoPoint::identity().compress().to_bytes();
        let Rec { pk_bytes: pk, md, p, q, c, s } = me.clone();
        // (c) identity / zero, (b) neighbours
        let mut variants: Vec<(String, Vec<u8>, u8, [u8; 32], [u8; 32], [u8; 32], [u8; 32])> = Vec::new();
        variants.push(("output:identity".into(), pk.clone(), md, p, ident, c, s));
        variants.push(("input:identity".into(), pk.clone(), md, ident, q, c, s));
        variants.push(("c:zero".into(), pk.clone(), md, p, q, zero, s));
        variants.push(("s:zero".into(), pk.clone(), md, p, q, c, zero));
        variants.push(("c:+1".into(), pk.clone(), md, p, q, scalar_add(&c, 1), s));
        variants.push(("c:-1".into(), pk.clone(), md, p, q, scalar_add(&c, -1), s));
        variants.push(("s:+1".into(), pk.clone(), md, p, q, c, scalar_add(&s, 1)));
        variants.push(("s:-1".into(), pk.clone(), md, p, q, c, scalar_add(&s, -1)));
        if let Some(n) = point_neighbour(&q) {
            variants.push(("output:+G".into(), pk.clone(), md, p, n, c, s));
        }
        if let Some(n) = point_neighbour(&p) {
            variants.push(("input:+G".into(), pk.clone(), md, n, q, c, s));
        }
        // one bit of an encoding
        let bit = ctx.ch.draw(256) as usize;
        for (name, which) in [("output:bit", 0), ("input:bit", 1), ("c:bit", 2), ("s:bit", 3)] {
            let mut v = (pk.clone(), md, p, q, c, s);
            let t = match which {
                0 => &mut v.3,
                1 => &mut v.2,
                2 => &mut v.4,
                _ => &mut v.5,
            };
            t[bit / 8] ^= 1 << (bit % 8);
            variants.push((name.into(), v.0, v.1, v.2, v.3, v.4, v.5));
        }
        // the unused top bit of each 32-byte point encoding (a canonical encoding never has it set)
        {
            let mut v = (pk.clone(), md, p, q, c, s);
            v.3[31] ^= 0x80;
            variants.push(("output:bit255".into(), v.0, v.1, v.2, v.3, v.4, v.5));
            let mut v = (pk.clone(), md, p, q, c, s);
            v.2[31] ^= 0x80;
            variants.push(("input:bit255".into(), v.0, v.1, v.2, v.3, v.4, v.5));
            let mut k = pk.clone();
            k[31] ^= 0x80;
            variants.push(("pk:base_bit255".into(), k, md, p, q, c, s));
            if let Some(off) = pk_entry(&pk, md) {
                let mut k = pk.clone();
                k[off + 31] ^= 0x80;
                variants.push(("pk:tag_entry_bit255".into(), k, md, p, q, c, s));
            }
        }
        // tag: another registered tag of the same key, and an unregistered one
        let n = u64::from_le_bytes(pk[32..40].try_into().unwrap()) as usize;
        for i in 0..n {
            let other = pk[40 + 33 * i];
            if other != md {
                variants.push(("tag:other_registered".into(), pk.clone(), other, p, q, c, s));
            }
        }
        variants.push(("tag:unregistered".into(), pk.clone(), md.wrapping_add(101), p, q, c, s));
        // public key: base + G, base := identity, tag entry + G, entries of two tags swapped
        {
            let mut k = pk.clone();
            if let Some(nb) = point_neighbour(&k[..32].try_into().unwrap()) {
                k[..32].copy_from_slice(&nb);
                variants.push(("pk:base+G".into(), k, md, p, q, c, s));
            }
            let mut k = pk.clone();
            k[..32].copy_from_slice(&ident);
            variants.push(("pk:base=identity".into(), k, md, p, q, c, s));
            if let Some(off) = pk_entry(&pk, md) {
                let mut k = pk.clone();
                if let Some(nb) = point_neighbour(&k[off..off + 32].try_into().unwrap()) {
                    k[off..off + 32].copy_from_slice(&nb);
                    variants.push(("pk:tag_entry+G".into(), k, md, p, q, c, s));
                }
                for i in 0..n {
                    let o2 = 40 + 33 * i + 1;
                    if o2 != off {
                        let mut k = pk.clone();
                        let a = k[off..off + 32].to_vec();
                        let b = k[o2..o2 + 32].to_vec();
                        k[off..off + 32].copy_from_slice(&b);
                        k[o2..o2 + 32].copy_from_slice(&a);
                        variants.push(("pk:tag_entries_swapped".into(), k, md, p, q, c, s));
                        break;
                    }
                }
            }
        }
        // (a) the same-typed component of another request / tag / server in the history
        let hist = self.history.clone();
        let picks = if ctx.thorough { hist.len().min(6) } else { hist.len().min(3) };
        for _ in 0..picks {
            let o = &hist[ctx.ch.index(hist.len())];
            variants.push(("output:from_other_exchange".into(), pk.clone(), md, p, o.q, c, s));
            variants.push(("input:from_other_exchange".into(), pk.clone(), md, o.p, q, c, s));
            variants.push(("proof:from_other_exchange".into(), pk.clone(), md, p, q, o.c, o.s));
            variants.push(("c:from_other_exchange".into(), pk.clone(), md, p, q, o.c, s));
            variants.push(("s:from_other_exchange".into(), pk.clone(), md, p, q, c, o.s));
            variants.push(("response:misdelivered (output+proof of another exchange)".into(), pk.clone(), md, p, o.q, o.c, o.s));
            variants.push(("pk:of_other_exchange".into(), o.pk_bytes.clone(), md, p, q, c, s));
            variants.push(("tag:of_other_exchange".into(), pk.clone(), o.md, p, q, c, s));
            variants.push(("replay:other exchange verbatim".into(), o.pk_bytes.clone(), o.md, o.p, o.q, o.c, o.s));
        }
        for (what, pk, md, p, q, c, s) in variants {
            self.try_one(ctx, &what, &pk, md, &p, &q, &c, &s)?;
        }
        Ok(())
    }
}

// ---------------------------------------------------------------------------
// Forging prover: a malicious server that knows its key returns a WRONG output Q' and a proof built
// for a weakened challenge (the commitment to the DLEQ relation left out). A correct verifier rejects
// every such proof; a verifier whose challenge no longer binds the relation accepts one of them.
// The transcript below mirrors the documented VOPRF-style layout; if the library's transcript is
// changed legitimately these forgeries simply fail to verify (no alarm).

fn i2osp2(x: usize) -> [u8; 2] {
    (x as u16).to_be_bytes()
}
fn h2s(input: &[u8], label: &str) -> Scalar {
    Scalar::from_bytes_mod_order_wide(&crate::models::ggm_ref::strobe_hash64(input, label))
}
fn composites(pk_tag: &RistrettoPoint, q: &RistrettoPoint, p: &RistrettoPoint) -> (RistrettoPoint, RistrettoPoint) {
    let ctx = format!("{}-{}-{}", "PPOPRFv1", 0x03, "ristretto255-strobe");
    let mut st = Vec::new();
    st.extend_from_slice(&i2osp2(32));
    st.extend_from_slice(pk_tag.compress().as_bytes());
    st.extend_from_slice(&i2osp2(ctx.len()));
    st.extend_from_slice(ctx.as_bytes());
    let seed = crate::models::ggm_ref::strobe_hash64(&st, "Seed");
    let mut ct = Vec::new();
    ct.extend_from_slice(&i2osp2(seed.len()));
    ct.extend_from_slice(&seed);
    ct.extend_from_slice(&i2osp2(0));
    ct.extend_from_slice(&i2osp2(32));
    ct.extend_from_slice(q.compress().as_bytes());
    ct.extend_from_slice(&i2osp2(32));
    ct.extend_from_slice(p.compress().as_bytes());
    let d = h2s(&ct, "Composite");
    (d * q, d * p)
}
fn challenge(points: &[&RistrettoPoint]) -> Scalar {
    let mut t = Vec::new();
    for p in points {
        t.extend_from_slice(&i2osp2(32));
        t.extend_from_slice(p.compress().as_bytes());
    }
    h2s(&t, "Challenge")
}

impl Oracle {
    fn forging_prover(&mut self, ctx: &mut Ctx, w: &WorldC, x: &Exchange, rec: &Rec) -> Result<(), Violation> {
        let sv = match w.servers.iter().find(|s| s.model.key_id == x.key_id) {
            Some(s) => s,
            None => return Ok(()),
        };
        let blob = match bincode::serialize(&sv.server.get_private_key()) {
            Ok(b) => b,
            Err(_) => return Ok(()),
        };
        let st = match crate::models::ggm_ref::parse_state(&blob) {
            Ok(s) => s,
            Err(_) => return Ok(()),
        };
        let tag = match crate::models::ggm_ref::ggm_eval(&st.ggm_key, rec.md) {
            Some(t) => t,
            None => return Ok(()),
        };
        let k = st.oprf_key + Scalar::from_bytes_mod_order(tag);
        let pk_tag = k * G;
        let p = match CompressedRistretto::from_slice(&rec.p).ok().and_then(|c| c.decompress()) {
            Some(p) => p,
            None => return Ok(()),
        };
        let q_true = match CompressedRistretto::from_slice(&rec.q).ok().and_then(|c| c.decompress()) {
            Some(q) => q,
            None => return Ok(()),
        };
        // sanity: the re-derived key must reproduce the honest output, otherwise the attack is moot
        if (k.invert() * p).compress().to_bytes() != rec.q {
            ctx.stats.probe("forging_prover_key_rederivation_differs");
            return Ok(());
        }
        let q_wrong = q_true + G;
        let (m, z) = composites(&pk_tag, &q_wrong, &p);
        let r = Scalar::from_bytes_mod_order(crate::models::ggm_ref::finalize(&rec.p, rec.md, &rec.q));
        let t2 = r * G;
        let t3_fake = r * m;
        let variants: Vec<(&str, Scalar)> = vec![
            ("challenge without t3", challenge(&[&pk_tag, &m, &z, &t2])),
            ("challenge without z and t3", challenge(&[&pk_tag, &m, &t2])),
            ("challenge over t2 only", challenge(&[&pk_tag, &t2])),
            ("full transcript with t3 = r*M", challenge(&[&pk_tag, &m, &z, &t2, &t3_fake])),
        ];
        for (name, c) in variants {
            let s = r - c * k;
            self.try_one(ctx, &format!("forged:{}", name), &rec.pk_bytes, rec.md, &rec.p, &q_wrong.compress().to_bytes(), &c.to_bytes(), &s.to_bytes())?;
            ctx.stats.probe("forged_proofs_for_wrong_output_tried");
        }
        Ok(())
    }
}

impl COracle for Oracle {
    fn on_request(&mut self, ctx: &mut Ctx, w: &WorldC, client: usize, input: &[u8], md: u8, blinded: &pp::Point) -> Result<(), Violation> {
        self.inner.on_request(ctx, w, client, input, md, blinded)
    }
    fn on_exchange(&mut self, ctx: &mut Ctx, w: &WorldC, x: &Exchange) -> Result<(), Violation> {
        // completeness after JSON / bincode crossing is checked by the inner oracle (c13.incomplete)
        self.inner.on_exchange(ctx, w, x)?;
        let v: serde_json::Value = serde_json::from_slice(x.eval_json).map_err(|e| Violation::new("c.exchange", "json", e.to_string()))?;
        use base64::{engine::Engine as _, prelude::BASE64_STANDARD};
        let qv = BASE64_STANDARD.decode(v["output"].as_str().unwrap_or("")).unwrap_or_default();
        if qv.len() != 32 || v["proof"].is_null() {
            return Err(Violation::new("c13.incomplete", "no_proof", "a verifiable evaluation carries no proof / malformed output"));
        }
        let mut q = [0u8; 32];
        q.copy_from_slice(&qv);
        let rec = Rec { pk_bytes: x.pk_bytes.to_vec(), md: x.md, p: *x.blinded.as_bytes(), q, c: arr32(&v["proof"]["c"]), s: arr32(&v["proof"]["s"]) };
        // nonce: the commitment s*G + c*PK_tag = r*G must be new in the whole history
        let pkt = combined(&rec.pk_bytes, rec.md).ok_or_else(|| Violation::new("c13.incomplete", "pk", "public key has no decodable entry for the evaluated tag"))?;
        let pk_point = CompressedRistretto::from_slice(&pkt).unwrap().decompress().unwrap();
        let t2 = (Scalar::from_bytes_mod_order(rec.s) * G + Scalar::from_bytes_mod_order(rec.c) * pk_point).compress().to_bytes();
        let stmt = (pkt, rec.p, rec.q, rec.c, rec.s);
        if !self.honest.contains(&stmt) {
            // (a replayed / duplicated response is the same proof again, not a second issuance)
            if !self.commitments.insert(t2) {
                return Err(Violation::new("c13.nonce_reuse", "nonce_reuse", format!("two proofs issued for different requests share the commitment r*G (tag {}): the nonce was reused and the key can be computed from the two proofs", rec.md)));
            }
            ctx.stats.probe("commitments_distinct");
        }
        self.honest.insert(stmt);
        self.seen += 1;
        if self.seen == 1 {
            // once per run: a client sends a DEGENERATE request point (the identity, the base point);
            // the server's honest verifiable answer must verify, and the tamper battery must hold for it
            if let Some(sv) = w.servers.iter().find(|s| s.model.key_id == x.key_id) {
                let ident = RistrettoPoint::identity().compress().to_bytes();
                let base = G.compress().to_bytes();
                for (name, pb) in [("identity", ident), ("base point", base)] {
                    let pt = pp::Point::from(&pb[..]);
                    let ev = match sv.server.eval(&pt, x.md, true) {
                        Ok(e) => e,
                        Err(_) => continue,
                    };
                    let js = serde_json::to_vec(&ev).map_err(|e| Violation::new("c.exchange", "json", e.to_string()))?;
                    let v2: serde_json::Value = serde_json::from_slice(&js).map_err(|e| Violation::new("c.exchange", "json", e.to_string()))?;
                    let qv = BASE64_STANDARD.decode(v2["output"].as_str().unwrap_or("")).unwrap_or_default();
                    if qv.len() != 32 || v2["proof"].is_null() {
                        continue;
                    }
                    let mut q2 = [0u8; 32];
                    q2.copy_from_slice(&qv);
                    let r2 = Rec { pk_bytes: x.pk_bytes.to_vec(), md: x.md, p: pb, q: q2, c: arr32(&v2["proof"]["c"]), s: arr32(&v2["proof"]["s"]) };
                    if let Some(pkt2) = combined(&r2.pk_bytes, r2.md) {
                        self.honest.insert((pkt2, r2.p, r2.q, r2.c, r2.s));
                        let pkv = pp::ServerPublicKey::load_from_bincode(&r2.pk_bytes).map_err(|e| Violation::new("c.exchange", "pk", e.to_string()))?;
                        if !pp::Client::verify(&pkv, &pt, &ev, x.md) {
                            return Err(Violation::new("c13.incomplete", "degenerate_request", format!("the honest verifiable evaluation of the {} as request point does not verify", name)));
                        }
                        self.battery(ctx, &r2)?;
                        ctx.stats.probe("degenerate_request_points_checked");
                    }
                }
            }
        }
        if !self.long || self.seen % 16 == 1 {
            self.battery(ctx, &rec)?;
            self.forging_prover(ctx, w, x, &rec)?;
        }
        if self.commitments.len() == 129 {
            ctx.stats.probe("runs_with_more_than_128_proofs");
        }
        if self.history.len() > 64 {
            self.history.remove(0);
        }
        self.history.push(rec);
        Ok(())
    }
    fn at_quiescence(&mut self, ctx: &mut Ctx, _w: &WorldC) -> Result<(), Violation> {
        let p = |k: &str| ctx.stats.probes.get(k).copied().unwrap_or(0);
        if p("tampered_rejected") > 0 && self.history.len() >= 2 {
            ctx.stats.nontrivial = true;
        }
        Ok(())
    }
}

impl Property for C13 {
    fn id(&self) -> &'static str {
        "C13"
    }
    fn level(&self) -> &'static str {
        "fault_enumeration"
    }
    fn world(&self) -> &'static str {
        "C (randomness service), verifiable mode, with a tampering wire"
    }
    fn rule(&self) -> &'static str {
        "one run = a world-C history in verifiable mode (1..3 servers with own keys, several tags, clients, dup/reorder/replay so duplicated requests yield interchangeable evaluations). Completeness: every honest response verifies after crossing as JSON (evaluation) and bincode (public key). Soundness: for every honest (pk, P, Q, tag, c, s) the enumerated tamper set replaces ONE component by (a) the same-typed component of other exchanges of the history (output, input, proof, c, s, whole response = misdelivery, public key, tag, verbatim replay), (b) a neighbour (scalar +-1, point + G, one drawn bit of each encoding, other registered tag, unregistered tag, pk base + G, tag entry + G, swapped tag entries) or (c) identity / zero; verify must be false unless the resulting (statement, proof) pair was honestly issued. A FORGING PROVER (the server's own key, read from its exported state) returns a wrong output with Schnorr-style proofs built for weakened challenges (t3 left out; z and t3 left out; t2 only; t3 = r*M): all must be rejected. Nonce: the commitments s*G + c*PK_tag of all issued proofs are pairwise distinct; every 8th run (5th in thorough) is a LONG history with 150..350 (thorough: up to ~1500) proofs issued in one process so that pooled / cyclic / cached nonces show. non-trivial = >= 2 exchanges and tampered tuples rejected; states = (tamper kind, verdict) cells"
    }
    fn runs(&self, thorough: bool) -> u64 {
        if thorough { 40_000 } else { 800 }
    }
    fn run(&self, ctx: &mut Ctx) -> Result<(), Violation> {
        let long = ctx.ch.chance(1, if ctx.thorough { 5 } else { 8 });
        let ntags = 1 + ctx.ch.index(4);
        let start = *ctx.ch.pick(&[0u8, 1, 100, 252, 254]);
        let mut tags: Vec<u8> = (0..ntags).map(|i| start.wrapping_add(i as u8)).collect();
        match ctx.ch.draw(3) {
            0 => tags.reverse(),
            1 => {
                let p = ctx.ch.permutation(tags.len());
                tags = p.iter().map(|&i| tags[i]).collect();
            }
            _ => {}
        }
        let registration = crate::props::c14::registration_list(ctx, &tags);
        let cfg = CCfg {
            registration,
            n_servers: 1 + ctx.ch.index(3),
            n_clients: if long { 20 + ctx.ch.index(if ctx.thorough { 120 } else { 20 }) } else { 2 + ctx.ch.index(3) },
            tags,
            epoch_len_us: 1_000_000,
            rotate: false,
            replicate: false,
            crash: false,
            ops: false,
            damaged_sync: ctx.ch.chance(1, 3),
            verifiable: true,
            requests_per_client: if long { 6 + ctx.ch.index(5) } else { 1 + ctx.ch.index(3) },
            inputs: inputs(ctx),
            horizon_us: 5_000_000,
        };
        let net = NetCfg { drop: 0, dup: 200, replay: 150, misdeliver: 0, corrupt: 0, min_latency_us: 2_000, jitter_us: 2_000_000, long_delay: 0, long_delay_us: 4_000_000 };
        let mut w = WorldC::build(ctx, cfg, net)?;
        let mut o = Oracle { long, ..Default::default() };
        w.run(ctx, &mut o)
    }
    fn real_components(&self) -> Vec<&'static str> {
        vec!["ppoprf::ppoprf::{Server::eval(verifiable), ProofDLEQ::new_batch/verify_batch, Client::verify, ServerPublicKey::load_from_bincode}", "serde_json Evaluation", "curve25519-dalek"]
    }
    fn stub_components(&self) -> Vec<&'static str> {
        vec!["network + tampering wire", "OS entropy source (server nonce stream is the server node's stream)", "statement bookkeeping (harness, curve25519-dalek arithmetic)"]
    }
    fn assumptions(&self) -> Vec<&'static str> {
        vec!["soundness is decided structurally over the enumerated tamper set, not cryptographically", "a verify() that panics is counted and left to C09"]
    }
    fn key_probes(&self) -> Vec<&'static str> {
        vec!["honest_proofs_verified", "tampered_rejected", "tampered_verifications", "commitments_distinct", "substitution_gave_an_honest_statement_accepted", "runs_with_more_than_128_proofs", "forged_proofs_for_wrong_output_tried"]
    }
}
