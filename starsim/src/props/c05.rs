//! C05 — authenticated recovery: the result is the shared message or an error,
//! never anything else (DESIGN.md §4 C05). World B, adss layer (and the star
//! wrapper), several sharings meeting at one combiner, one field fault per attempt.
use crate::choices::{hex_short, mix};
use crate::ev;
use crate::kernel::{Ctx, Net, NetCfg, Violation};
use crate::models::layout;
use crate::runner::{guarded, Property};
use crate::worlds::b::{self, Delivery, DEALER0};
use adss::{recover, Commune, Share};
use std::collections::BTreeSet;

pub struct C05;

struct Sharing {
    t: u32,
    m: Vec<u8>,
    r: Vec<u8>,
    honest: BTreeSet<Vec<u8>>,
    /// the sharing polynomial (constant term first), inferred with big integers from t dealt shares
    poly: Vec<num_bigint::BigUint>,
    reference: layout::PShare,
}

impl Sharing {
    /// Is `bytes` (a canonical share encoding) a genuine share of this sharing: same threshold,
    /// C, D, J and a point ON the sharing polynomial? (For t = 1 the polynomial is constant,
    /// so every x is a genuine point: a dealer with other entropy could have produced it.)
    fn is_genuine(&self, bytes: &[u8]) -> bool {
        if self.honest.contains(bytes) {
            return true;
        }
        let p = crate::models::shamir_big::p();
        match layout::parse_share(bytes) {
            Some(s) => s.threshold == self.reference.threshold && s.c == self.reference.c && s.d == self.reference.d && s.j == self.reference.j && s.ys.len() == 1 && crate::models::shamir_big::eval(&self.poly, &s.x, &p) == s.ys[0],
            None => false,
        }
    }
}

const FIELDS: &[&str] = &["threshold", "S.len", "S.x", "S.y", "C.len", "C", "D.len", "D", "J"];

impl Property for C05 {
    fn id(&self) -> &'static str {
        "C05"
    }
    fn level(&self) -> &'static str {
        "fault_enumeration"
    }
    fn world(&self) -> &'static str {
        "B (dealing, adss layer + star wrapper): several sharings, one combiner"
    }
    fn rule(&self) -> &'static str {
        "one run = 1..4 sharings (distinct thresholds/messages/coins, lengths incl. 0) whose shares reach one combiner under dup/reorder; per attempt a collection is drawn (first share from a chosen sharing; the rest a drawn mix of own, foreign and repeated shares at drawn positions) and ONE fault is applied: position (first share half of the time) x field {threshold, S.len, S.x, S.y, C.len, C, D.len, D, J} x byte offset x {bit flip, 00, ff, +1, swap with the same field of another share of the same or another sharing}; quick draws the (position, field, offset, kind) cell, thorough additionally sweeps all 9 fields x 5 kinds on the first share of each collection. Oracle: outcome is Err or exactly the message of the sharing the (decoded) first share came from; a first share whose canonical re-encoding is not a genuine share of that sharing (same threshold/C/D/J and a point on its polynomial, judged with big integers) must give Err. non-trivial = at least one altered-first-share rejection and one Ok(right message) with a fault elsewhere; states = (field, kind, position class, outcome) cells"
    }
    fn runs(&self, thorough: bool) -> u64 {
        if thorough { 400_000 } else { 20_000 }
    }
    fn run(&self, ctx: &mut Ctx) -> Result<(), Violation> {
        // ---- sharings
        let n_sharings = 1 + ctx.ch.index(4);
        let lens = [0usize, 0, 1, 16, 32, 32, 100, 200];
        let mut sharings: Vec<Sharing> = Vec::new();
        let mut msgs: Vec<(u32, Vec<u8>)> = Vec::new();
        let mut msg_sharing: Vec<usize> = Vec::new();
        for si in 0..n_sharings {
            let t = *ctx.ch.pick(&[1u32, 2, 2, 3, 3, 4, 6]);
            let ml = *ctx.ch.pick(&lens);
            let rl = *ctx.ch.pick(&lens);
            let mut m = ctx.ch.bytes(ml);
            let r = ctx.ch.bytes(rl);
            if let Some(b) = m.first_mut() {
                *b = si as u8; // sharings are distinct
            }
            if sharings.iter().any(|s| s.t == t && s.m == m && s.r == r) {
                continue;
            }
            let n = t as usize + ctx.ch.index(3);
            let mut honest = BTreeSet::new();
            for d in 0..n {
                let sh = ctx
                    .os
                    .with_node((si * 100 + d) as u64 + 10, || Commune::new(t, m.clone(), r.clone(), None).share())
                    .map_err(|e| Violation::new("c05.setup", "share", e.to_string()))?;
                let b = sh.to_bytes();
                honest.insert(b.clone());
                msgs.push((DEALER0 + (si * 100 + d) as u32, b));
                msg_sharing.push(sharings.len());
            }
            ev!(ctx, "sharing {} t={} |M|={} |R|={} shares={}", sharings.len(), t, ml, rl, n);
            let parsed: Vec<layout::PShare> = honest.iter().map(|b| layout::parse_share(b).expect("honest share parses")).collect();
            let pts: Vec<(num_bigint::BigUint, num_bigint::BigUint)> = parsed.iter().take(t as usize).map(|s| (s.x.clone(), s.ys[0].clone())).collect();
            let poly = crate::models::shamir_big::interpolate(&pts, &crate::models::shamir_big::p());
            sharings.push(Sharing { t, m, r, honest, poly, reference: parsed[0].clone() });
        }
        // ---- transport: everything meets in one inbox
        let cfg = NetCfg { drop: 0, dup: 150, replay: 0, misdeliver: 0, corrupt: 0, min_latency_us: 500, jitter_us: 100_000, long_delay: 0, long_delay_us: 0 };
        let mut net = Net::new(cfg);
        let mut inbox: Vec<(usize, Vec<u8>)> = Vec::new(); // (sharing, bytes)
        b::transport(ctx, &mut net, &msgs, 100_000, |_ctx, d: &Delivery| {
            inbox.push((msg_sharing[d.msg], d.bytes.clone()));
            Ok(())
        })?;
        if inbox.is_empty() {
            return Ok(());
        }
        let use_star_wrapper = ctx.ch.chance(1, 2);
        let mut saw_reject = false;
        let mut saw_ok = false;
        // ---- attempts
        let attempts = if ctx.thorough { 10 } else { 6 };
        for _ in 0..attempts {
            // collection: first share from a chosen sharing, then a drawn mix
            let first_candidates: Vec<usize> = (0..inbox.len()).collect();
            let f = *ctx.ch.pick(&first_candidates);
            let x = inbox[f].0;
            let mut coll: Vec<usize> = vec![f];
            let size = 1 + ctx.ch.index(sharings[x].t as usize + 4);
            for _ in 0..size {
                let own_bias = ctx.ch.chance(2, 3);
                let pool: Vec<usize> = (0..inbox.len()).filter(|&i| (inbox[i].0 == x) == own_bias).collect();
                let i = if pool.is_empty() { ctx.ch.index(inbox.len()) } else { *ctx.ch.pick(&pool) };
                let pos = 1 + ctx.ch.index(coll.len());
                coll.insert(pos, i);
            }
            // the fault cells to apply to this collection (one at a time)
            let mut cells: Vec<(usize, &'static str, u8)> = Vec::new(); // (position, field, kind)
            let pos = if ctx.ch.chance(1, 2) { 0 } else { ctx.ch.index(coll.len()) };
            let field = *ctx.ch.pick(FIELDS);
            let kind = ctx.ch.draw(7) as u8; // 0 none,1 bitflip,2 00,3 ff,4 +1,5 fieldswap,6 reframe
            cells.push((pos, field, kind));
            if ctx.thorough {
                for fld in FIELDS {
                    for k in 1..=5u8 {
                        cells.push((0, fld, k));
                    }
                }
                cells.push((0, "C", 6));
            }
            for (pos, field, kind) in cells {
                let mut bytes: Vec<Vec<u8>> = coll.iter().map(|&i| inbox[i].1.clone()).collect();
                let mut applied = "none".to_string();
                if kind == 6 {
                    // re-framing: the boundary between the encrypted message C and the encrypted coins D moves by
                    // k bytes and both length prefixes are adjusted - every byte of the share is still there, the
                    // tag is intact, only the split differs. The MAC covers message and coins as TWO items.
                    if let Some(mut ps) = layout::parse_share(&bytes[pos]) {
                        let k = 1 + ctx.ch.index(4);
                        let before = bytes[pos].clone();
                        if ctx.ch.chance(1, 2) && ps.c.len() >= k {
                            let tail = ps.c.split_off(ps.c.len() - k);
                            ps.d.splice(0..0, tail);
                        } else if ps.d.len() >= k {
                            let head: Vec<u8> = ps.d.drain(..k).collect();
                            ps.c.extend(head);
                        }
                        bytes[pos] = layout::encode_share(&ps);
                        if bytes[pos] != before {
                            applied = format!("C|D boundary moved by {} in share #{}", k, pos);
                            ctx.stats.fault("reframe_c_d");
                        }
                    }
                } else if kind != 0 {
                    let lay = layout::share_fields(&bytes[pos], 0);
                    if let Some((_, a, b)) = lay.fields.iter().find(|f| f.0 == field).copied() {
                        let off = a + ctx.ch.index(b - a);
                        let before = bytes[pos].clone();
                        match kind {
                            1 => bytes[pos][off] ^= 1 << ctx.ch.draw(8),
                            2 => bytes[pos][off] = 0,
                            3 => bytes[pos][off] = 0xff,
                            4 => bytes[pos][off] = bytes[pos][off].wrapping_add(1),
                            _ => {
                                // same field of another share in the inbox (same or other sharing)
                                let other = &inbox[ctx.ch.index(inbox.len())].1;
                                let ol = layout::share_fields(other, 0);
                                if let Some((_, oa, ob)) = ol.fields.iter().find(|f| f.0 == field).copied() {
                                    if ob - oa == b - a {
                                        let src = other[oa..ob].to_vec();
                                        bytes[pos][a..b].copy_from_slice(&src);
                                    }
                                }
                            }
                        }
                        if bytes[pos] != before {
                            applied = format!("{}@{} {} in share #{}", field, off - a, ["", "bitflip", "00", "ff", "+1", "fieldswap"][kind as usize], pos);
                            ctx.stats.fault(["", "bitflip", "byteset00", "bytesetff", "byteinc", "fieldswap"][kind as usize]);
                        }
                    }
                }
                // decode; undecodable results are dropped (C08/C09 territory)
                let mut decoded: Vec<(usize, Share)> = Vec::new(); // (origin sharing, share)
                for (k, b) in bytes.iter().enumerate() {
                    match guarded(|| Share::from_bytes(b)) {
                        Ok(Some(s)) => decoded.push((inbox[coll[k]].0, s)),
                        Ok(None) => ctx.stats.probe("undecodable_dropped"),
                        Err(_) => ctx.stats.probe("decoder_panicked_left_to_C09"),
                    }
                }
                // The string API decodes and recovers in one call. When the FIRST line is a share that no longer
                // decodes, that is an alteration of the share that supplies the ciphertext: the call must not
                // quietly go on with the next line as supplier.
                if !bytes.is_empty() && matches!(guarded(|| Share::from_bytes(&bytes[0])), Ok(None)) && decoded.len() + 1 == bytes.len() {
                    use base64::{engine::Engine as _, prelude::BASE64_STANDARD};
                    let joined = bytes.iter().map(|b| BASE64_STANDARD.encode(b)).collect::<Vec<_>>().join("\n");
                    if let Ok(Some(_)) = guarded(|| star_wasm::group_shares(&joined, "e")) {
                        return Err(Violation::new(
                            "c05.altered_first_accepted",
                            "undecodable_first_skipped",
                            format!("group_shares returned a key for a collection whose first share was altered ({}) so that it no longer decodes: the next share silently supplied the ciphertext", applied),
                        ));
                    }
                    ctx.stats.probe("undecodable_first_share_refused_by_string_api");
                }
                if decoded.is_empty() {
                    continue;
                }
                let xs = decoded[0].0;
                let first_bytes = decoded[0].1.to_bytes();
                // Genuineness is judged on the WIRE bytes the first share arrived as, read by the
                // independent layout parser (canonical form: ignored trailing partial element dropped),
                // not on what the decoder under test made of them: a decoder that silently normalises an
                // altered encoding back to the genuine share must not hide the alteration.
                let first_wire: &Vec<u8> = {
                    let mut k = 0usize;
                    let mut found = &bytes[0];
                    for b in bytes.iter() {
                        if matches!(guarded(|| Share::from_bytes(b)), Ok(Some(_))) {
                            found = b;
                            let _ = k;
                            break;
                        }
                        k += 1;
                    }
                    found
                };
                let first_altered = match layout::parse_share(first_wire) {
                    Some(p) => !sharings[xs].is_genuine(&layout::encode_share(&p)),
                    None => true,
                };
                let shares: Vec<Share> = decoded.iter().map(|d| d.1.clone()).collect();
                let outcome = if use_star_wrapper {
                    let star: Vec<sta_rs::Share> = shares.iter().filter_map(|s| sta_rs::Share::from_bytes(&s.to_bytes())).collect();
                    guarded(|| sta_rs::share_recover(&star).map(|c| c.get_message()).map_err(|e| e.to_string()))
                } else {
                    guarded(|| recover(&shares).map(|c| c.get_message()).map_err(|e| e.to_string()))
                };
                let outcome = match outcome {
                    Ok(o) => o,
                    Err(_) => {
                        ctx.stats.probe("recover_panicked_left_to_C09");
                        continue;
                    }
                };
                // the string API on the very same collection, in the very same order: it decodes and recovers, so
                // it answers iff recovery does, and with the key of the message recovery returned
                if decoded.len() == bytes.len() && ctx.ch.chance(1, 3) {
                    use base64::{engine::Engine as _, prelude::BASE64_STANDARD};
                    let joined = bytes.iter().map(|b| BASE64_STANDARD.encode(b)).collect::<Vec<_>>().join("\n");
                    if let Ok(r) = guarded(|| star_wasm::group_shares(&joined, "e")) {
                        let want = outcome.as_ref().ok().map(|m| {
                            let mut k = vec![0u8; 16];
                            sta_rs::derive_ske_key(m, b"e", &mut k);
                            BASE64_STANDARD.encode(&k)
                        });
                        if r != want {
                            return Err(Violation::new(
                                "c05.wrong_message",
                                "string_api_differs",
                                format!("group_shares on the collection (first share of sharing {}, fault: {}) returned {} where recovery of the same shares in the same order gives {}", xs, applied, if r.is_some() { "a key" } else { "nothing" }, if want.is_some() { "another key / a key" } else { "an error" }),
                            ));
                        }
                        ctx.stats.probe("string_api_agrees_with_recovery");
                    }
                }
                let pos_class = if pos == 0 { 0u64 } else { 1 };
                ctx.stats.state(mix(mix(FIELDS.iter().position(|f| *f == field).unwrap_or(0) as u64, kind as u64), mix(pos_class, outcome.is_ok() as u64)));
                ev!(ctx, "  attempt: {} shares, first from sharing {}, fault [{}], first altered={} -> {}", shares.len(), xs, applied, first_altered, if outcome.is_ok() { "Ok" } else { "Err" });
                match outcome {
                    Err(_) => {
                        if first_altered {
                            saw_reject = true;
                            ctx.stats.probe("altered_first_share_rejected");
                        } else {
                            ctx.stats.probe("err_other");
                        }
                    }
                    Ok(m) => {
                        // chance acceptance under a garbage key: the first share presents the tag J of a
                        // sharing Y (swapped in, or Y = X) whose message and coins together carry fewer
                        // than 128 bits; the garbage decryption then equals (M_Y, R_Y) with probability
                        // 2^-8(|M_Y|+|R_Y|) and the MAC legitimately verifies, returning M_Y.
                        let presented_j = layout::parse_share(&first_bytes).map(|p| p.j);
                        let weak_donor = sharings.iter().any(|y| Some(&y.reference.j) == presented_j.as_ref() && y.m == m && 8 * (y.m.len() + y.r.len()) < 128);
                        if m != sharings[xs].m && weak_donor {
                            ctx.stats.probe("ok_by_chance_under_tag_of_a_short_sharing");
                        } else if m != sharings[xs].m {
                            return Err(Violation::new(
                                "c05.wrong_message",
                                "wrong_message",
                                format!("recovery returned {} but the first share belongs to sharing {} whose message is {} (fault: {})", hex_short(&m), xs, hex_short(&sharings[xs].m), applied),
                            ));
                        }
                        // The MAC authenticates exactly (threshold, M, R): a wrong key decrypts C,D to the
                        // right (M, R) by chance with probability 2^-8(|M|+|R|) (probability 1 when both are
                        // empty) and the MAC then legitimately verifies. "Always rejected" is therefore only
                        // demanded when message and coins together carry >= 128 bits (DESIGN.md §4 C05).
                        let authenticated_bits = 8 * (sharings[xs].m.len() + sharings[xs].r.len());
                        if first_altered && authenticated_bits < 128 {
                            ctx.stats.probe("altered_first_ok_by_chance_short_message_and_coins");
                        } else if first_altered {
                            return Err(Violation::new(
                                "c05.altered_first_accepted",
                                format!("field:{}", field),
                                format!("the first share was altered ({}) and is no genuine share of sharing {} (t={}, |M|={}, |R|={}), yet recovery returned Ok", applied, xs, sharings[xs].t, sharings[xs].m.len(), sharings[xs].r.len()),
                            ));
                        } else {
                            if applied != "none" {
                                saw_ok = true;
                                ctx.stats.probe("ok_right_message_with_fault_elsewhere");
                            } else {
                                ctx.stats.probe("ok_right_message_no_fault");
                            }
                        }
                    }
                }
            }
        }
        if saw_reject && saw_ok {
            ctx.stats.nontrivial = true;
        }
        Ok(())
    }
    fn real_components(&self) -> Vec<&'static str> {
        vec!["adss::{Commune::share, recover, Share::from_bytes/to_bytes}", "sta_rs::{Share::from_bytes, share_recover}", "star-sharks recover/interpolate", "strobe-rs MAC"]
    }
    fn stub_components(&self) -> Vec<&'static str> {
        vec!["network (dup/reorder; several sharings meet in one inbox)", "field-targeted fault injector", "OS entropy source"]
    }
    fn assumptions(&self) -> Vec<&'static str> {
        vec!["a 64-byte MAC is not forged by a single-field fault (2^-512)", "decoder / recovery panics are counted and left to C09"]
    }
    fn key_probes(&self) -> Vec<&'static str> {
        vec!["altered_first_share_rejected", "ok_right_message_with_fault_elsewhere", "ok_right_message_no_fault", "undecodable_dropped"]
    }
}
