//! C16 — ADSS sharing is deterministic up to the share point; recovery
//! rebuilds it (DESIGN.md §4 C16). World B, adss layer.
use crate::choices::mix;
use crate::ev;
use crate::kernel::{Ctx, Net, NetCfg, Violation};
use crate::models::layout;
use crate::runner::Property;
use crate::worlds::b::{self, Delivery, DEALER0};
use adss::{recover, Commune, Share};
use num_bigint::BigUint;
use std::collections::BTreeSet;
use strobe_rs::{SecParam, Strobe};

pub struct C16;

fn transcript(id: u8) -> Option<Strobe> {
    match id {
        0 => None,
        1 => Some(Strobe::new(b"custom transcript one", SecParam::B128)),
        2 => {
            let mut s = Strobe::new(b"custom transcript two", SecParam::B128);
            s.ad(b"context data", false);
            Some(s)
        }
        _ => Some(Strobe::new(b"adss-v2", SecParam::B128)),
    }
}

thread_local! {
    /// when set, every dealer node runs on its own OS thread (released for one call at a time)
    static DEALER_THREADS: std::cell::RefCell<Option<crate::kernel::NodeThreads>> = std::cell::RefCell::new(None);
}

fn deal(ctx: &mut Ctx, stream: u64, t: u32, m: &[u8], r: &[u8], tid: u8) -> Result<Share, Violation> {
    let threaded = DEALER_THREADS.with(|d| d.borrow().is_some());
    // half of the dealers obtain their Commune by CLONING a prototype (share() consumes the value, so
    // `c.clone().share()` is how several shares of one sharing are made, as the crate's own tests do)
    let via_clone = ctx.ch.chance(1, 2);
    if via_clone {
        ctx.stats.probe("dealers_sharing_a_cloned_commune");
    }
    let res = if threaded {
        let mut entropy = vec![0u8; 256];
        ctx.os.with_stream(stream, || {
            let _ = getrandom::getrandom(&mut entropy);
        });
        let (mm, rr) = (m.to_vec(), r.to_vec());
        DEALER_THREADS.with(|d| {
            d.borrow_mut().as_mut().unwrap().run(stream as u32, entropy, move || {
                let proto = Commune::new(t, mm, rr, transcript(tid));
                let c = if via_clone { proto.clone() } else { proto };
                c.share().map_err(|e| e.to_string())
            })
        })
    } else {
        ctx.os.with_stream(stream, || {
            let proto = Commune::new(t, m.to_vec(), r.to_vec(), transcript(tid));
            let c = if via_clone { proto.clone() } else { proto };
            c.share().map_err(|e| e.to_string())
        })
    };
    res.map_err(|e| Violation::new("c16.share_failed", "share", format!("share() failed for t={} |M|={} |R|={}: {}", t, m.len(), r.len(), e)))
}

struct ThreadsGuard;
impl Drop for ThreadsGuard {
    fn drop(&mut self) {
        DEALER_THREADS.with(|d| *d.borrow_mut() = None);
    }
}

impl Property for C16 {
    fn id(&self) -> &'static str {
        "C16"
    }
    fn world(&self) -> &'static str {
        "B (dealing, adss layer): independent dealers, share holders, one combiner"
    }
    fn rule(&self) -> &'static str {
        "one run = one sharing (t in 0..128 biased small, |M|,|R| from {0,1,15,16,17,32,165,166,167,332,1000,100000}, optional custom transcript) dealt by several independent dealer nodes: different entropy streams, and two dealers given the SAME stream (the seam allows it); shares cross the wire under drop/dup/reorder to one combiner where shares of a second transcript may also arrive. History oracle: threshold/C/D/J byte-identical across dealers; same entropy => identical share; different entropy => distinct points; any t shares recover M; the recovered sharing re-shared mixes with original shares; t=0 never recovers; custom-transcript shares are rejected; two transcripts never combine. non-trivial = t >= 2 and a recovery from a mixed original/re-shared selection succeeded; states = (t, |M| class, |R| class, transcript) cells"
    }
    fn runs(&self, thorough: bool) -> u64 {
        if thorough { 300_000 } else { 10_000 }
    }
    fn run(&self, ctx: &mut Ctx) -> Result<(), Violation> {
        let _guard = ThreadsGuard;
        if ctx.ch.chance(1, 3) {
            DEALER_THREADS.with(|d| *d.borrow_mut() = Some(crate::kernel::NodeThreads::default()));
            ctx.stats.probe("runs_with_one_os_thread_per_dealer");
        }
        let ts: Vec<u32> = if ctx.thorough { vec![0, 1, 1, 2, 2, 3, 3, 4, 5, 8, 17, 40, 128] } else { vec![0, 1, 1, 2, 2, 3, 3, 4, 5, 8, 17, 40] };
        let t = *ctx.ch.pick(&ts);
        let mut lens = vec![0usize, 0, 1, 4, 15, 16, 17, 32, 32, 165, 166, 167, 332, 1000];
        if ctx.thorough {
            lens.push(100_000);
        } else if ctx.ch.chance(1, 20) {
            lens = vec![0, 32, 70_000];
        }
        let ml = *ctx.ch.pick(&lens);
        let rl = *ctx.ch.pick(&lens);
        let m = ctx.ch.bytes(ml);
        let r = ctx.ch.bytes(rl);
        let tid = if ctx.ch.chance(1, 4) { 1 + ctx.ch.draw(3) as u8 } else { 0 };
        ev!(ctx, "sharing t={} |M|={} |R|={} transcript={}", t, ml, rl, tid);
        ctx.stats.state(mix(mix(t as u64, ml as u64), mix(rl as u64, tid as u64)));
        let n_dealers = (t as usize + 1 + ctx.ch.index(4)).max(2);
        // ---- independent dealers
        let mut shares: Vec<Share> = Vec::new();
        for d in 0..n_dealers {
            shares.push(deal(ctx, 1000 + d as u64, t, &m, &r, tid)?);
        }
        // two dealers given the same entropy stream from its beginning
        ctx.os.reset_stream(7001);
        let a = deal(ctx, 7001, t, &m, &r, tid)?;
        ctx.os.reset_stream(7001);
        let b2 = deal(ctx, 7001, t, &m, &r, tid)?;
        if a.to_bytes() != b2.to_bytes() {
            return Err(Violation::new("c16.same_entropy_differs", "same_entropy", "two dealers given the same (threshold, message, coins) and the same entropy stream produced different shares: something besides the share point is not deterministic"));
        }
        ctx.stats.probe("same_entropy_identical");
        shares.push(a);
        // ---- determinism table over the wire encodings
        let parsed: Vec<layout::PShare> = shares
            .iter()
            .map(|s| layout::parse_share(&s.to_bytes()).ok_or_else(|| Violation::new("c16.layout", "layout", "share does not parse")))
            .collect::<Result<_, _>>()?;
        let first = &parsed[0];
        let mut points: BTreeSet<BigUint> = BTreeSet::new();
        for (i, p) in parsed.iter().enumerate() {
            for (name, same) in [("threshold", p.threshold == first.threshold && p.threshold == t), ("C", p.c == first.c), ("D", p.d == first.d), ("J", p.j == first.j)] {
                if !same {
                    return Err(Violation::new("c16.nondeterministic_field", name, format!("field {} of dealer {}'s share differs from dealer 0's for the same (threshold, message, coins)", name, i)));
                }
            }
            if p.c.len() != ml || p.d.len() != rl {
                return Err(Violation::new("c16.nondeterministic_field", "lengths", "C/D lengths are not the message/coin lengths"));
            }
            // dealers 0..n have different entropy: distinct points (the last one repeats none of them either)
            if !points.insert(p.x.clone()) {
                return Err(Violation::new("c16.point_repeat", "point_repeat", format!("dealers with different entropy streams produced the same share point {}", p.x)));
            }
        }
        // all y lie on ONE polynomial of degree t-1: checked by recovery below and, for t>=1, by C02's clause
        ctx.stats.probe("determinism_tables_checked");

        // ---- a second sharing under another transcript whose shares may arrive at the same combiner
        let tid2 = if tid == 0 { 1 } else { 0 };
        let mut foreign: Vec<Share> = Vec::new();
        let n_foreign = if ctx.ch.chance(1, 2) { t as usize + 1 } else { 0 };
        for d in 0..n_foreign {
            foreign.push(deal(ctx, 3000 + d as u64, t, &m, &r, tid2)?);
        }

        // ---- transport to the combiner
        let mut cfg = NetCfg { drop: 100, dup: 200, replay: 0, misdeliver: 0, corrupt: 0, min_latency_us: 500, jitter_us: 100_000, long_delay: 0, long_delay_us: 0 };
        if !ctx.ch.chance(1, 2) {
            cfg.drop = 0;
        }
        let mut net = Net::new(cfg);
        let mut msgs: Vec<(u32, Vec<u8>)> = shares.iter().enumerate().map(|(i, s)| (DEALER0 + i as u32, s.to_bytes())).collect();
        let n_own = msgs.len();
        msgs.extend(foreign.iter().enumerate().map(|(i, s)| (DEALER0 + 500 + i as u32, s.to_bytes())));
        let mut own: Vec<Share> = Vec::new();
        let mut other: Vec<Share> = Vec::new();
        b::transport(ctx, &mut net, &msgs, 100_000, |_ctx, d: &Delivery| {
            let s = Share::from_bytes(&d.bytes).ok_or_else(|| Violation::new("c16.decode", "decode", "honest share rejected by from_bytes"))?;
            if d.msg < n_own {
                own.push(s);
            } else {
                other.push(s);
            }
            Ok(())
        })?;
        let distinct = |v: &[Share]| -> usize { v.iter().map(|s| layout::parse_share(&s.to_bytes()).unwrap().x).collect::<BTreeSet<_>>().len() };
        let d_own = distinct(&own);
        // ---- collections of ONE share and of two copies of one share: recover only for t = 1
        if !own.is_empty() && tid == 0 {
            let one = vec![own[ctx.ch.index(own.len())].clone()];
            let twice = vec![one[0].clone(), one[0].clone()];
            for (name, coll) in [("a single share", &one), ("two copies of one share", &twice)] {
                let r = recover(coll);
                if t == 1 {
                    match r {
                        Ok(c) if c.get_message() == m => ctx.stats.probe("single_share_recovers_t1"),
                        _ => return Err(Violation::new("c16.recover", "t1_single_share", format!("{} of a threshold-1 sharing did not recover the message", name))),
                    }
                } else if r.is_ok() {
                    return Err(Violation::new(if t == 0 { "c16.t0" } else { "c16.recover" }, if t == 0 { "t0_recovers" } else { "subthreshold_ok" }, format!("{} recovered a threshold-{} sharing", name, t)));
                } else {
                    ctx.stats.probe("single_share_refused");
                }
            }
        }
        // ---- recovery
        let res = recover(&own);
        // recover takes any iterable of shares: the answer must not depend on HOW the same shares are handed
        // over (a slice, or a lazy adaptor whose size_hint says little)
        {
            let lazy = match ctx.ch.draw(4) {
                0 => recover(own.iter().filter(|_| true)),
                1 => recover(own.iter().skip_while(|_| false)),
                2 => recover(own.chunks(2).flatten()),
                _ => recover(own.iter().chain(std::iter::empty())),
            };
            let same = match (&res, &lazy) {
                (Ok(a), Ok(b)) => a.get_message() == b.get_message(),
                (Err(_), Err(_)) => true,
                _ => false,
            };
            if !same {
                return Err(Violation::new("c16.recover", "iterator_dependent", format!("recover answers {} for a slice of {} shares (t={}) and {} for the same shares behind a lazy iterator", if res.is_ok() { "Ok" } else { "Err" }, own.len(), t, if lazy.is_ok() { "Ok" } else { "Err" })));
            }
        }
        if t == 0 {
            if res.is_ok() {
                return Err(Violation::new("c16.t0", "t0_recovers", "threshold 0 recovered"));
            }
            ctx.stats.probe("t0_refused");
            return Ok(());
        }
        if tid != 0 {
            // shares made under a custom transcript are rejected by recover (which assumes the default one)
            if res.is_ok() {
                return Err(Violation::new("c16.transcript", "custom_accepted", format!("shares created under custom transcript {} were accepted by recover()", tid)));
            }
            ctx.stats.probe("custom_transcript_rejected");
        } else if d_own >= t as usize {
            let c = res.map_err(|e| Violation::new("c16.recover", "recover_err", format!("{} distinct shares of t={} |M|={} |R|={} did not recover: {}", d_own, t, ml, rl, e)))?;
            if c.get_message() != m {
                return Err(Violation::new("c16.recover", "wrong_message", "recovered message differs from the shared one"));
            }
            ctx.stats.probe("recovered");
            // genuine shares at CHOSEN points (bit 128 set; the pair x / x + 2^128), computed from t of the
            // delivered shares with big integers: "any t shares with distinct points" includes these
            if t >= 2 && t <= 40 && ctx.ch.chance(1, 3) {
                let mut seen: BTreeSet<BigUint> = BTreeSet::new();
                let base: Vec<layout::PShare> = own.iter().filter_map(|s| layout::parse_share(&s.to_bytes())).filter(|p| seen.insert(p.x.clone())).take(t as usize).collect();
                if base.len() == t as usize {
                    let small = BigUint::from(1 + ctx.ch.draw(12_000));
                    let hi = (BigUint::from(1u8) << 128) + &small;
                    let mk = |x: &BigUint| Share::from_bytes(&layout::encode_share(&layout::genuine_share_at(&base, x)));
                    let rest = |n: usize| -> Vec<Share> { base[n..].iter().filter_map(|p| Share::from_bytes(&layout::encode_share(p))).collect() };
                    for (what, extra, skip) in [("one share at a point >= 2^128", vec![mk(&hi)], 1usize), ("shares at x and x + 2^128", vec![mk(&small), mk(&hi)], 2)] {
                        let mut coll = rest(skip);
                        for e in extra {
                            coll.push(e.ok_or_else(|| Violation::new("c16.decode", "decode", "a genuine share at a chosen point was rejected by from_bytes"))?);
                        }
                        let xs: BTreeSet<BigUint> = coll.iter().filter_map(|s| layout::parse_share(&s.to_bytes())).map(|p| p.x).collect();
                        if xs.len() < t as usize {
                            continue;
                        }
                        let perm = ctx.ch.permutation(coll.len());
                        let coll: Vec<Share> = perm.iter().map(|&i| coll[i].clone()).collect();
                        match recover(&coll) {
                            Ok(c) if c.get_message() == m => ctx.stats.probe("recovered_with_chosen_points"),
                            Ok(_) => return Err(Violation::new("c16.recover", "chosen_point_wrong_message", format!("t={} genuine shares with distinct points ({}) recovered another message", t, what))),
                            Err(e) => return Err(Violation::new("c16.recover", "chosen_point", format!("t={} genuine shares with distinct points ({}) did not recover: {}", t, what, e))),
                        }
                    }
                }
            }
            // re-share the recovered sharing; mix new and original shares at drawn positions
            let mut mixed: Vec<Share> = Vec::new();
            let n_new = 1 + ctx.ch.index(t as usize);
            let mut news: Vec<Share> = Vec::new();
            for i in 0..n_new {
                let s = ctx.os.with_stream(5000 + i as u64, || c.clone().share()).map_err(|e| Violation::new("c16.reshare", "share", e.to_string()))?;
                news.push(s);
            }
            let pn = layout::parse_share(&news[0].to_bytes()).unwrap();
            if pn.c != first.c || pn.d != first.d || pn.j != first.j || pn.threshold != first.threshold {
                return Err(Violation::new("c16.reshare", "fields_differ", "a share produced from the recovered sharing differs from the original shares in threshold/C/D/J: the recovered sharing is not the original one"));
            }
            // selection: all new ones + original ones to reach t distinct, in drawn order
            let mut need = (t as usize).saturating_sub(n_new);
            mixed.extend(news.iter().cloned());
            for s in &own {
                if need == 0 {
                    break;
                }
                let x = layout::parse_share(&s.to_bytes()).unwrap().x;
                if !mixed.iter().any(|q| layout::parse_share(&q.to_bytes()).unwrap().x == x) {
                    mixed.push(s.clone());
                    need -= 1;
                }
            }
            if need == 0 {
                let perm = ctx.ch.permutation(mixed.len());
                let mixed: Vec<Share> = perm.iter().map(|&i| mixed[i].clone()).collect();
                let c2 = recover(&mixed).map_err(|e| Violation::new("c16.reshare", "mixed_recover_err", format!("{} re-shared + {} original shares (t={}) did not combine: {}", n_new, mixed.len() - n_new, t, e)))?;
                if c2.get_message() != m {
                    return Err(Violation::new("c16.reshare", "wrong_message", "mixed recovery returned another message"));
                }
                ctx.stats.probe("mixed_reshare_recovered");
                if t >= 2 {
                    ctx.stats.nontrivial = true;
                }
            }
        } else {
            if res.is_ok() {
                return Err(Violation::new("c16.recover", "subthreshold_ok", format!("{} distinct shares recovered a t={} sharing", d_own, t)));
            }
            ctx.stats.probe("subthreshold_refused");
        }
        // ---- two transcripts never combine: the first share's sharing contributes fewer than t
        // distinct shares, the other transcript's shares pad the collection beyond t
        // (the MAC authenticates exactly (threshold, M, R): a wrong key decrypts to the right (M, R) by
        // chance with probability 2^-8(|M|+|R|), certainly when both are empty; the check is therefore
        // only made when message and coins together carry >= 128 bits, see DESIGN.md §4 C16)
        if t >= 2 && !other.is_empty() && !own.is_empty() && ml + rl >= 16 {
            for first_own in [true, false] {
                let (a, b) = if first_own { (&own, &other) } else { (&other, &own) };
                let mut coll: Vec<Share> = Vec::new();
                let mut xs: BTreeSet<BigUint> = BTreeSet::new();
                for s in a.iter() {
                    if xs.len() + 1 >= t as usize {
                        break;
                    }
                    xs.insert(layout::parse_share(&s.to_bytes()).unwrap().x);
                    coll.push(s.clone());
                }
                if coll.is_empty() {
                    continue;
                }
                coll.extend(b.iter().cloned());
                if recover(&coll).is_ok() {
                    return Err(Violation::new("c16.transcript", "transcripts_combined", format!("{} shares of transcript {} padded with shares of transcript {} combined (t={})", xs.len(), if first_own { tid } else { tid2 }, if first_own { tid2 } else { tid }, t)));
                }
                ctx.stats.probe("two_transcripts_refused");
            }
        }
        // ---- a twin sharing in the same process: the same bytes M||R split at another point (same threshold).
        // It is a different (threshold, message, coins) triple, so it is its own sharing: its shares recover ITS
        // message, whatever was dealt before it.
        if tid == 0 && t >= 1 && ml + rl >= 1 && ctx.ch.chance(1, 3) {
            let cat = [m.clone(), r.clone()].concat();
            let mut cut = ctx.ch.index(cat.len() + 1);
            if cut == ml {
                cut = if cut == 0 { cat.len() } else { 0 };
            }
            let (m2, r2) = cat.split_at(cut);
            let mut twin: Vec<Share> = Vec::new();
            for d in 0..t {
                twin.push(deal(ctx, 7000 + d as u64, t, m2, r2, 0)?);
            }
            match recover(&twin) {
                Ok(c) if c.get_message() == m2 => ctx.stats.probe("split_twin_recovers_its_own_message"),
                Ok(_) => return Err(Violation::new("c16.recover", "split_twin_wrong_message", format!("a sharing of (|M|={}, |R|={}) dealt after one of (|M|={}, |R|={}) with the same concatenation M||R and threshold recovered another message than its own", m2.len(), r2.len(), ml, rl))),
                Err(e) => return Err(Violation::new("c16.recover", "split_twin_err", format!("t={} shares of a sharing of (|M|={}, |R|={}) dealt after one of (|M|={}, |R|={}) with the same concatenation did not recover: {}", t, m2.len(), r2.len(), ml, rl, e))),
            }
        }
        // ---- failed attempts leave nothing behind. Above, collections led by this sharing's own shares were
        // (rightly) refused; here a damaged copy of the collection is refused as well - one byte of the first
        // share's encrypted coins or message altered, tag J intact. The SAME genuine collection must then still
        // recover, on the same thread, exactly as it did before.
        if tid == 0 && t >= 1 && d_own >= t as usize {
            let mut wire = own[0].to_bytes();
            let n = wire.len();
            let at = if rl > 0 { Some(n - 64 - 1) } else if ml > 0 { Some(n - 64 - 4 - 1) } else { None };
            if let Some(at) = at {
                wire[at] ^= 0x01;
                if let Some(s) = Share::from_bytes(&wire) {
                    let mut coll = own.clone();
                    coll[0] = s;
                    if recover(&coll).is_err() {
                        ctx.stats.fault("failed_recovery_before_valid_one");
                    }
                }
            }
            match recover(&own) {
                Ok(c) if c.get_message() == m => ctx.stats.probe("recovers_again_after_failed_attempts"),
                Ok(_) => return Err(Violation::new("c16.recover", "wrong_message_after_failed_attempt", "after refused collections, the genuine collection recovered another message")),
                Err(e) => return Err(Violation::new("c16.recover", "recover_err_after_failed_attempt", format!("the genuine collection ({} distinct shares, t={}) recovered before, but after refused collections (foreign transcript mixed in / one ciphertext byte altered) it no longer does: {}", d_own, t, e))),
            }
        }
        // ---- copies outlive their originals: a share is a value. The combiner keeps clones of what it
        // received, the received objects (and the other transcript's) are dropped, and the clones must still
        // encode to the same bytes and recover as before.
        if tid == 0 && t >= 1 && !own.is_empty() {
            let wires: Vec<Vec<u8>> = own.iter().map(|s| s.to_bytes()).collect();
            let copies: Vec<Share> = own.iter().cloned().collect();
            drop(own);
            drop(other);
            drop(shares);
            for (i, c) in copies.iter().enumerate() {
                if c.to_bytes() != wires[i] {
                    return Err(Violation::new("c16.nondeterministic_field", "clone_changed_after_original_dropped", format!("the encoding of a cloned share changed once the share it was cloned from had been dropped (share {} of {})", i, copies.len())));
                }
            }
            let r = recover(&copies);
            if d_own >= t as usize {
                match r {
                    Ok(c) if c.get_message() == m => ctx.stats.probe("clones_recover_after_originals_dropped"),
                    Ok(_) => return Err(Violation::new("c16.recover", "clones_wrong_message", "clones of the delivered shares recovered another message once the originals had been dropped")),
                    Err(e) => return Err(Violation::new("c16.recover", "clones_err", format!("clones of {} distinct delivered shares (t={}) did not recover once the originals had been dropped: {}", d_own, t, e))),
                }
            }
        }
        Ok(())
    }
    fn real_components(&self) -> Vec<&'static str> {
        vec!["adss::{Commune::new/share/get_message, recover, Share::to_bytes/from_bytes}", "star-sharks", "strobe-rs"]
    }
    fn stub_components(&self) -> Vec<&'static str> {
        vec!["network", "OS entropy source (same stream handed to two dealers on purpose)", "layout parser"]
    }
    fn assumptions(&self) -> Vec<&'static str> {
        vec!["two honest dealers with different entropy never draw the same point (2^-128)"]
    }
    fn key_probes(&self) -> Vec<&'static str> {
        vec!["same_entropy_identical", "determinism_tables_checked", "recovered", "mixed_reshare_recovered", "t0_refused", "custom_transcript_rejected", "subthreshold_refused", "two_transcripts_refused"]
    }
}
