//! C02 — sub-threshold confidentiality (DESIGN.md §4 C02). World A with the
//! aggregator + wire acting as attacker on whatever sub-threshold material
//! has arrived; wire scan for secrets; polynomial clause by big-integer
//! interpolation of the dealt shares.
use crate::choices::{hex_short, mix};
use crate::ev;
use crate::kernel::{Ctx, NetCfg, Violation};
use crate::models::{layout, shamir_big};
use crate::props::c01::delivered_by_group;
use crate::runner::Property;
use crate::worlds::a::{AOracle, GenCfg, Sent, WorldA};
use num_bigint::BigUint;
use num_traits::Zero;
use sta_rs::{derive_ske_key, share_recover, strobe_digest, Share};
use std::collections::{BTreeMap, BTreeSet};

pub struct C02;

#[derive(Default)]
struct Oracle {
    /// group -> (coefficients, constant term first) once established
    polys: BTreeMap<usize, Vec<BigUint>>,
    poly_checked: BTreeSet<usize>,
    last: BTreeMap<usize, usize>,
}

fn find(hay: &[u8], needle: &[u8]) -> Option<usize> {
    if needle.is_empty() || hay.len() < needle.len() {
        return None;
    }
    hay.windows(needle.len()).position(|w| w == needle)
}

pub fn derive_secrets(rnd: &[u8; 32], epoch: &[u8]) -> (Vec<u8>, Vec<u8>, Vec<u8>, Vec<u8>) {
    let mut r = Vec::new();
    for i in 0..3u8 {
        let mut out = [0u8; 32];
        strobe_digest(rnd, &[&[i]], "star_derive_randoms", &mut out);
        r.push(out.to_vec());
    }
    let mut key = vec![0u8; 16];
    derive_ske_key(&r[0], epoch, &mut key);
    (r[0].clone(), r[1].clone(), r[2].clone(), key)
}

/// distinct-share multiset of a collection, per origin group
fn distinct_per_group(w: &WorldA, coll: &[usize]) -> BTreeMap<usize, BTreeSet<BigUint>> {
    let mut m: BTreeMap<usize, BTreeSet<BigUint>> = BTreeMap::new();
    for &i in coll {
        let d = &w.delivered[i];
        let x = layout::parse_report(&d.bytes).unwrap().share.x;
        m.entry(w.origin(d).group).or_default().insert(x);
    }
    m
}

fn decode_shares(w: &WorldA, coll: &[usize], rewrite: Option<(u32, bool)>) -> Option<Vec<Share>> {
    let mut out = Vec::new();
    for (pos, &i) in coll.iter().enumerate() {
        let b = &w.delivered[i].bytes;
        let pr = layout::parse_report(b)?;
        let mut sb = b[pr.share_off..pr.share_off + pr.share_len].to_vec();
        if let Some((v, all)) = rewrite {
            if all || pos == 0 {
                sb[..4].copy_from_slice(&v.to_le_bytes());
            }
        }
        out.push(Share::from_bytes(&sb)?);
    }
    Some(out)
}

impl Oracle {
    /// honest recovery of a complete group's own shares: the reference secret
    fn reference_seed(&self, w: &WorldA, idxs: &[usize]) -> Option<Vec<u8>> {
        let shares = decode_shares(w, idxs, None)?;
        share_recover(&shares).ok().map(|c| c.get_message())
    }

    fn judge(&self, ctx: &mut Ctx, w: &WorldA, coll: &[usize], res: Result<Vec<u8>, String>, what: &str, by_group: &BTreeMap<usize, Vec<usize>>) -> Result<(), Violation> {
        let per = distinct_per_group(w, coll);
        let complete: Vec<usize> = per.iter().filter(|(g, xs)| xs.len() >= w.groups[**g].threshold as usize).map(|(g, _)| *g).collect();
        match res {
            Err(_) => {
                ctx.stats.probe("attack_refused");
                Ok(())
            }
            Ok(m) => {
                if complete.is_empty() {
                    let desc: Vec<String> = per.iter().map(|(g, xs)| format!("group {}: {} distinct of t={}", g, xs.len(), w.groups[*g].threshold)).collect();
                    return Err(Violation::new(
                        "c02.ok_without_threshold",
                        what.split(' ').next().unwrap_or(what).to_string(),
                        format!("recovery returned Ok({}) for a collection in which no measurement reaches its threshold [{}]; attack: {}", hex_short(&m), desc.join("; "), what),
                    ));
                }
                // Ok is only acceptable as the secret of a group that is complete within the collection
                for g in &complete {
                    let own: Vec<usize> = by_group[g].clone();
                    if let Some(seed) = self.reference_seed(w, &own) {
                        if seed == m {
                            ctx.stats.probe("ok_of_complete_foreign_group");
                            return Ok(());
                        }
                    }
                }
                Err(Violation::new(
                    "c02.revealed",
                    what.split(' ').next().unwrap_or(what).to_string(),
                    format!("recovery returned Ok({}) which is not the secret of any group complete in the collection; attack: {}", hex_short(&m), what),
                ))
            }
        }
    }

    fn attack(&mut self, ctx: &mut Ctx, w: &WorldA, force: bool) -> Result<(), Violation> {
        let by_group = delivered_by_group(w);
        let all_idx: Vec<usize> = (0..w.delivered.len()).collect();
        for (gid, idxs) in by_group.iter() {
            let g = &w.groups[*gid];
            let t = g.threshold as usize;
            let xs: BTreeSet<BigUint> = idxs.iter().map(|&i| layout::parse_report(&w.delivered[i].bytes).unwrap().share.x).collect();
            let d = xs.len();
            ctx.stats.state(mix(t as u64, d.min(t + 1) as u64));
            if d >= t {
                continue;
            }
            if !force && self.last.get(gid) == Some(&idxs.len()) {
                continue;
            }
            self.last.insert(*gid, idxs.len());
            let run = |coll: &[usize], rw: Option<(u32, bool)>| -> Result<Vec<u8>, String> {
                match decode_shares(w, coll, rw) {
                    None => Err("undecodable".into()),
                    Some(sh) => share_recover(&sh).map(|c| c.get_message()).map_err(|e| e.to_string()),
                }
            };
            ev!(ctx, "  attack on group {} (t={}, distinct={}, delivered={})", gid, t, d, idxs.len());
            // (a) what is there
            self.judge(ctx, w, idxs, run(idxs, None), "plain sub-threshold collection", &by_group)?;
            ctx.stats.probe("attack_plain");
            // (b) padded with duplicates to >= t (and beyond)
            let mut padded = idxs.clone();
            while padded.len() < t + 1 {
                let i = idxs[ctx.ch.index(idxs.len())];
                padded.push(i);
            }
            let perm = ctx.ch.permutation(padded.len());
            let padded: Vec<usize> = perm.iter().map(|&k| padded[k]).collect();
            self.judge(ctx, w, &padded, run(&padded, None), "duplicates padded to >= t", &by_group)?;
            ctx.stats.probe("attack_dup_padding");
            // (c) forged threshold field
            let mut forged: Vec<u32> = vec![0, 1, d as u32, d as u32 + 1, (t - 1) as u32, t as u32 + 1, u32::MAX, 2];
            if ctx.thorough {
                forged.extend((0..=d as u32).take(12));
            }
            forged.sort();
            forged.dedup();
            forged.retain(|v| *v != t as u32);
            for v in forged {
                for all in [true, false] {
                    for coll in [idxs, &padded] {
                        let r = run(coll, Some((v, all)));
                        if v as usize <= coll.len() && v >= 1 {
                            ctx.stats.probe("forged_threshold_le_available");
                        }
                        self.judge(ctx, w, coll, r, &format!("forged threshold {} (all shares: {})", v, all), &by_group)?;
                        ctx.stats.probe("attack_forged_threshold");
                    }
                }
            }
            // (d) padded with foreign shares in drawn positions
            let foreign: Vec<usize> = all_idx.iter().copied().filter(|i| w.origin(&w.delivered[*i]).group != *gid).collect();
            if !foreign.is_empty() {
                let rounds = if ctx.thorough { 4 } else { 2 };
                for _ in 0..rounds {
                    let k = 1 + ctx.ch.index((t + 2).min(foreign.len()));
                    let mut coll = idxs.clone();
                    for _ in 0..k {
                        let f = foreign[ctx.ch.index(foreign.len())];
                        let pos = ctx.ch.index(coll.len() + 1);
                        coll.insert(pos, f);
                    }
                    let r = run(&coll, None);
                    let same_measurement = coll.iter().any(|&i| {
                        let og = w.origin(&w.delivered[i]).group;
                        og != *gid && w.groups[og].measurement == g.measurement
                    });
                    if same_measurement {
                        ctx.stats.probe("mixed_with_same_measurement_other_epoch_or_threshold");
                    }
                    self.judge(ctx, w, &coll, r, "foreign shares mixed in", &by_group)?;
                    ctx.stats.probe("attack_foreign_mix");
                    // and with the threshold of the first share forged down to the collection size
                    let v = coll.len() as u32;
                    let r = run(&coll, Some((v, true)));
                    self.judge(ctx, w, &coll, r, &format!("forged threshold {} + foreign mix", v), &by_group)?;
                }
            }
            ctx.stats.nontrivial = true;
        }
        Ok(())
    }

    fn poly_clause(&mut self, ctx: &mut Ctx, w: &WorldA) -> Result<(), Violation> {
        let p = shamir_big::p();
        let mut by_group: BTreeMap<usize, Vec<&Sent>> = BTreeMap::new();
        for s in w.sent.values() {
            by_group.entry(s.group).or_default().push(s);
        }
        for (gid, sents) in by_group {
            if self.poly_checked.contains(&gid) {
                continue;
            }
            let g = &w.groups[gid];
            let t = g.threshold as usize;
            let mut pts: BTreeMap<BigUint, BigUint> = BTreeMap::new();
            for s in &sents {
                let pr = layout::parse_report(&s.bytes).unwrap();
                if pr.share.ys.len() == 1 {
                    pts.insert(pr.share.x.clone(), pr.share.ys[0].clone());
                }
            }
            if pts.len() < t + 1 {
                continue;
            }
            self.poly_checked.insert(gid);
            let pts: Vec<(BigUint, BigUint)> = pts.into_iter().collect();
            let coeffs = shamir_big::interpolate(&pts, &p);
            let deg = shamir_big::degree(&coeffs);
            ev!(ctx, "  polynomial of group {}: {} points, degree {:?}, t={}", gid, pts.len(), deg, t);
            if deg != Some(t - 1) {
                return Err(Violation::new(
                    "c02.poly_degree",
                    if deg.map(|d| d < t - 1).unwrap_or(true) { "degree_too_low" } else { "degree_too_high" },
                    format!("the {} shares of group {} (t={}) lie on a polynomial of degree {:?}, expected exactly {}", pts.len(), gid, t, deg, t - 1),
                ));
            }
            let nonconst = &coeffs[1..t];
            if nonconst.iter().any(|c| c.is_zero()) {
                return Err(Violation::new("c02.poly_coeff", "zero_coefficient", format!("group {} (t={}): a non-constant coefficient is zero", gid, t)));
            }
            let set: BTreeSet<&BigUint> = nonconst.iter().collect();
            if set.len() != nonconst.len() {
                return Err(Violation::new("c02.poly_coeff", "repeated_coefficient", format!("group {} (t={}): non-constant coefficients are not pairwise distinct", gid, t)));
            }
            if coeffs[0] >= (BigUint::from(1u32) << 128) {
                return Err(Violation::new("c02.poly_coeff", "constant_term_range", format!("group {}: constant term is not a zero-padded 16-byte key", gid)));
            }
            if t >= 2 && nonconst.contains(&coeffs[0]) {
                return Err(Violation::new("c02.poly_coeff", "coefficient_equals_key", format!("group {}: a non-constant coefficient equals the constant term", gid)));
            }
            for (og, oc) in &self.polys {
                let ot = w.groups[*og].threshold as usize;
                let other: BTreeSet<&BigUint> = oc[..ot].iter().collect();
                if coeffs[..t].iter().any(|c| other.contains(c)) {
                    return Err(Violation::new(
                        "c02.poly_coeff",
                        "coefficient_shared_between_measurements",
                        format!("groups {} and {} (different measurement/epoch/threshold) share a polynomial coefficient", gid, og),
                    ));
                }
            }
            // wire scan for the sharing key K (constant term, 16 LE bytes) in every report of the group
            let k16 = shamir_big::to_le24(&coeffs[0])[..16].to_vec();
            for s in &sents {
                if let Some(off) = find(&s.bytes, &k16) {
                    return Err(Violation::new("c02.wire_secret", "sharing_key", format!("report {:?} carries the 16-byte sharing key at offset {}", s.id, off)));
                }
            }
            self.polys.insert(gid, coeffs);
            ctx.stats.probe("polynomials_checked");
            if t >= 8 {
                ctx.stats.probe("polynomials_checked_t_ge_8");
            }
            if t > 256 {
                ctx.stats.probe("polynomials_checked_t_over_256");
            }
        }
        Ok(())
    }
}

impl AOracle for Oracle {
    fn on_sent(&mut self, ctx: &mut Ctx, w: &WorldA, s: &Sent) -> Result<(), Violation> {
        let g = &w.groups[s.group];
        if g.threshold < 2 {
            return Ok(());
        }
        let c = &w.clients[s.client];
        let rnd = c.rnd.expect("client randomness");
        let (r0, r1, _r2, key) = derive_secrets(&rnd, &g.epoch);
        let mut needles: Vec<(&str, Vec<u8>)> = vec![("client randomness", rnd.to_vec()), ("key seed r0", r0.clone()), ("coins r1", r1), ("encryption key", key), ("r0[..16]", r0[..16].to_vec()), ("randomness[..16]", rnd[..16].to_vec())];
        if g.measurement.len() >= 8 {
            needles.push(("measurement", g.measurement.clone()));
        }
        for (name, n) in needles {
            if let Some(off) = find(&s.bytes, &n) {
                return Err(Violation::new("c02.wire_secret", name, format!("encoded report {:?} (t={}) contains the {} in the clear at offset {}", s.id, g.threshold, name, off)));
            }
        }
        if let Some(pr) = layout::parse_report(&s.bytes) {
            // ... nor one XOR away: the 32-byte public fields of a report (encrypted message C, encrypted coins D,
            // tag, the two halves of J) must not combine, two or three at a time, to a secret. (Two ciphertexts
            // under one keystream, or coins that are public, give exactly that.)
            let mut fields: Vec<(&str, Vec<u8>)> = Vec::new();
            for (n, f) in [("C", pr.share.c.clone()), ("D", pr.share.d.clone()), ("tag", pr.tag.clone())] {
                if f.len() == 32 {
                    fields.push((n, f));
                }
            }
            if pr.share.j.len() == 64 {
                fields.push(("J[..32]", pr.share.j[..32].to_vec()));
                fields.push(("J[32..]", pr.share.j[32..].to_vec()));
            }
            let (r0x, r1x, _, keyx) = derive_secrets(&rnd, &g.epoch);
            let secrets: Vec<(&str, Vec<u8>)> = vec![("key seed r0", r0x), ("coins r1", r1x), ("client randomness", rnd.to_vec()), ("encryption key", keyx)];
            let nf = fields.len();
            for mask in 1u32..(1 << nf) {
                let ones = mask.count_ones();
                if !(2..=3).contains(&ones) {
                    continue;
                }
                let mut x = vec![0u8; 32];
                let mut names: Vec<&str> = Vec::new();
                for (i, (n, f)) in fields.iter().enumerate() {
                    if mask & (1 << i) != 0 {
                        for (a, b) in x.iter_mut().zip(f.iter()) {
                            *a ^= *b;
                        }
                        names.push(n);
                    }
                }
                for (sn, sv) in &secrets {
                    if x[..sv.len().min(32)] == sv[..sv.len().min(32)] {
                        return Err(Violation::new("c02.wire_secret", "xor_of_public_fields", format!("encoded report {:?} (t={}): {} = the {}: a single report opens itself", s.id, g.threshold, names.join(" xor "), sn)));
                    }
                }
            }
            ctx.stats.probe("xor_combinations_of_public_fields_checked");
            if pr.share.x.is_zero() {
                return Err(Violation::new("c02.wire_secret", "share_point_zero", format!("report {:?} (t={}) carries a share at x = 0: its share value IS the sharing key", s.id, g.threshold)));
            }
        }
        ctx.stats.probe("reports_scanned");
        Ok(())
    }
    fn on_tick(&mut self, ctx: &mut Ctx, w: &WorldA) -> Result<(), Violation> {
        self.attack(ctx, w, false)
    }
    fn at_quiescence(&mut self, ctx: &mut Ctx, w: &WorldA) -> Result<(), Violation> {
        self.attack(ctx, w, true)?;
        self.poly_clause(ctx, w)
    }
}

/// Thresholds just above 2^16: nothing near t reports can be produced or interpolated, so the polynomial clause
/// is tested from below. Twelve reports of one measurement carry twelve points of each sharing polynomial; for a
/// polynomial of degree t-1 >= 11 they interpolate to degree exactly 11 (anything lower has probability 2^-128).
/// A sharing whose real degree is 0, 1, ... 10 - e.g. (t-1) mod 2^16 - would let that many + 1 clients open
/// the measurement.
fn huge_threshold(ctx: &mut Ctx) -> Result<(), Violation> {
    use sta_rs::{Message, MessageGenerator};
    let t = *ctx.ch.pick(&[65_537u32, 65_538, 65_540, 65_546]);
    let m = ctx.ch.bytes(11);
    let epoch = b"e".to_vec();
    ctx.stats.probe("runs_with_threshold_above_2_16");
    ev!(ctx, "twelve reports at threshold {} (degree tested from below)", t);
    let mg = MessageGenerator::new(crate::worlds::a::make_measurement(&m), t, &epoch);
    let mut rnd = [0u8; 32];
    mg.sample_local_randomness(&mut rnd);
    let n = 12usize;
    let mut pts: Vec<(BigUint, Vec<BigUint>)> = Vec::new();
    for i in 0..n {
        let msg = ctx.os.with_node(100 + i as u64, || Message::generate(&mg, &rnd, None)).map_err(|e| Violation::new("c02.generate", "generate", e.to_string()))?;
        let pr = layout::parse_report(&msg.to_bytes()).ok_or_else(|| Violation::new("c02.layout", "layout", "report does not parse"))?;
        if pr.share.x.is_zero() {
            return Err(Violation::new("c02.wire_secret", "share_point_zero", "a report carries the share point 0"));
        }
        pts.push((pr.share.x, pr.share.ys));
    }
    let p = shamir_big::p();
    let k = pts[0].1.len();
    for j in 0..k {
        let pj: Vec<(BigUint, BigUint)> = pts.iter().map(|(x, ys)| (x.clone(), ys[j].clone())).collect();
        let xs: BTreeSet<&BigUint> = pj.iter().map(|q| &q.0).collect();
        if xs.len() < n {
            continue;
        }
        let co = shamir_big::interpolate(&pj, &p);
        let d = shamir_big::degree(&co).unwrap_or(0);
        if d < n - 1 {
            return Err(Violation::new("c02.poly_degree", "degree_too_low", format!("{} reports at threshold {} carry points of a polynomial of degree {} (element {}): {} clients would open the measurement", n, t, d, j, d + 1)));
        }
    }
    ctx.stats.nontrivial = false;
    Ok(())
}

impl Property for C02 {
    fn id(&self) -> &'static str {
        "C02"
    }
    fn world(&self) -> &'static str {
        "A (STAR reporting) with the aggregator + wire as attacker"
    }
    fn rule(&self) -> &'static str {
        "one run = a world-A history (t >= 2; groups plus relatives: same measurement under another epoch/threshold; drop/dup/reorder) in which, at drawn moments and at quiescence, every bucket with fewer than t distinct delivered points is attacked: recover as is; padded with duplicates; threshold field rewritten to 0,1,..,d,d+1,t-1,t+1,2^32-1 in the first / in all shares; foreign shares mixed in at drawn positions. Ok is acceptable only as the secret of a group complete inside the collection. Every sent report is scanned at every offset for the client's randomness, r0, r1, encryption key, sharing key and measurement. For groups with >= t+1 dealt shares the polynomial is interpolated with big integers: exact degree t-1, non-constant coefficients non-zero, pairwise distinct, disjoint between groups. non-trivial = at least one sub-threshold bucket was attacked; states = (t, distinct delivered) cells"
    }
    fn runs(&self, thorough: bool) -> u64 {
        if thorough { 80_000 } else { 900 }
    }
    fn run(&self, ctx: &mut Ctx) -> Result<(), Violation> {
        if ctx.ch.chance(1, 20) {
            // Thresholds no report can be generated for in reasonable time (2^24 coefficients take most of a
            // minute): what can still be observed is the threshold the dealer is CONFIGURED with for a given
            // access structure, which is where "degree exactly t-1" is decided. Narrowing, masking or
            // byte-swapping it there shares a measurement under a smaller threshold than the client asked for.
            for base in [1u32 << 16, 1 << 24, 1 << 31] {
                for d in [0u32, 1, 2, 255, 256] {
                    let tt = base.wrapping_add(d);
                    for tt in [tt, tt.swap_bytes(), u32::MAX - d] {
                        let a = adss::AccessStructure::from_bytes(&tt.to_le_bytes()).ok_or_else(|| Violation::new("c02.layout", "access_structure", "a 4-byte access structure does not parse"))?;
                        let configured = star_sharks::Sharks::from(a).0;
                        if configured != tt {
                            return Err(Violation::new("c02.poly_degree", "threshold_narrowed", format!("a sharing asked for with threshold {} configures its dealer with threshold {}: the polynomial has degree {} instead of {}", tt, configured, configured.wrapping_sub(1), tt - 1)));
                        }
                    }
                }
            }
            ctx.stats.probe("dealer_threshold_checked_for_huge_thresholds");
        }
        if ctx.ch.chance(1, 100) {
            return huge_threshold(ctx);
        }
        let mut gen = GenCfg::standard(ctx.thorough);
        gen.min_threshold = 2;
        gen.thresholds.retain(|t| *t >= 2);
        gen.relatives = true;
        gen.entropy_burst = 30;
        gen.count_offsets = vec![-1, -1, -2, 0, 1, 1, 2, 3];
        gen.aux_kinds = vec![-1, 0, 4, 100, 300];
        // every 40th run: one group with a threshold that does not fit one byte and t+1..t+2 clients,
        // so that the polynomial clause is decided above 256 as well
        let big = ctx.ch.chance(1, 60);
        if big {
            gen.thresholds = vec![257, 300];
            gen.max_groups = 1;
            gen.relatives = false;
            gen.max_clients_total = 310;
            gen.count_offsets = vec![1, 2];
            gen.sources = vec![0, 1];
            gen.meas_lens = vec![11];
            gen.aux_kinds = vec![-1, 4];
            ctx.stats.probe("runs_with_threshold_over_256");
        }
        let mut net = NetCfg { drop: 200, dup: 150, replay: 50, misdeliver: 0, corrupt: 0, min_latency_us: 1_000, jitter_us: 600_000, long_delay: 50, long_delay_us: 3_000_000 };
        if big {
            // no loss here: a 250-share sub-threshold bucket would make every forged-threshold attack
            // an O(t^2) interpolation; this mode is about the polynomial clause
            net.drop = 0;
            net.dup = 0;
            net.replay = 0;
        }
        let mut w = WorldA::build(ctx, gen, net, true);
        let mut o = Oracle::default();
        w.run(ctx, &mut o)
    }
    fn real_components(&self) -> Vec<&'static str> {
        vec!["sta_rs::{Message::generate/to_bytes, Share::from_bytes, share_recover, strobe_digest, derive_ske_key}", "adss::{Commune::share, recover}", "star-sharks dealer + recover", "ppoprf exchange for the OPRF randomness source"]
    }
    fn stub_components(&self) -> Vec<&'static str> {
        vec!["network", "clock", "OS entropy source", "client driver", "attacker battery (harness)", "big-integer interpolation (num-bigint)"]
    }
    fn assumptions(&self) -> Vec<&'static str> {
        vec![
            "structural check, not a cryptographic proof: secrecy is decided as 'the recovery interface refuses', 'no secret byte string on the wire' and 'polynomial has full degree with fresh coefficients'",
            "r0/r1 for the wire scan are recomputed through the public strobe_digest with the current labels; if the derivation were refactored the scan for those two values would go vacuous (never alarm); K and the encryption key are obtained independently",
            "chance of a false alarm from a random 16-byte match: < 2^-100 per run",
        ]
    }
    fn key_probes(&self) -> Vec<&'static str> {
        vec!["attack_plain", "attack_dup_padding", "attack_forged_threshold", "forged_threshold_le_available", "attack_foreign_mix", "mixed_with_same_measurement_other_epoch_or_threshold", "ok_of_complete_foreign_group", "polynomials_checked", "polynomials_checked_t_ge_8", "reports_scanned"]
    }
}
