pub mod c01;
pub mod c02;
pub mod c03;
pub mod c04;
pub mod c05;
pub mod c06;
pub mod c08;
pub mod c09;
pub mod c10;
pub mod c11;
pub mod c13;
pub mod c14;
pub mod c15;
pub mod c16;
pub mod c17;
pub mod c18;

use crate::runner::Property;

pub fn all() -> Vec<Box<dyn Property>> {
    vec![Box::new(c01::C01), Box::new(c02::C02), Box::new(c03::C03), Box::new(c04::C04), Box::new(c05::C05), Box::new(c06::C06), Box::new(c08::C08), Box::new(c09::C09), Box::new(c10::C10), Box::new(c11::C11), Box::new(c14::C12), Box::new(c13::C13), Box::new(c14::C14), Box::new(c15::C15), Box::new(c16::C16), Box::new(c17::C17), Box::new(c18::C18)]
}
pub fn by_id(id: &str) -> Option<Box<dyn Property>> {
    all().into_iter().find(|p| p.id().eq_ignore_ascii_case(id))
}
