#![allow(dead_code)]
//! starsim — deterministic simulation with fault injection for brave/sta-rs.
//! See /verif/DESIGN.md.
mod choices;
mod faults;
mod kernel;
mod models;
mod osrng;
mod props;
mod runner;
mod worlds;

use choices::Choices;
use runner::*;
use serde_json::json;

fn arg_val(args: &[String], name: &str) -> Option<String> {
    args.iter().position(|a| a == name).and_then(|i| args.get(i + 1).cloned())
}

fn verif_dir(args: &[String]) -> String {
    arg_val(args, "--verif-dir").or_else(|| std::env::var("VERIF_DIR").ok()).unwrap_or_else(|| "/verif".to_string())
}

fn base_seed() -> u64 {
    std::env::var("VERIF_SEED").ok().and_then(|s| s.trim().parse::<u64>().ok()).unwrap_or(DEFAULT_SEED)
}

fn main() {
    install_panic_hook();
    let args: Vec<String> = std::env::args().collect();
    let code = match args.get(1).map(|s| s.as_str()) {
        Some("check") => cmd_check(&args),
        Some("replay") => cmd_replay(&args),
        Some("digests") => cmd_digests(&args),
        Some("one") => cmd_one(&args),
        Some("seedfile") => cmd_seedfile(&args),
        Some("list") => {
            for p in props::all() {
                println!("{} {}", p.id(), p.world());
            }
            0
        }
        _ => {
            eprintln!("usage: starsim check <ID> [--tier quick|thorough] [--runs N] [--workers N] | replay <file> | digests <ID|all> [--n N] [--workers N] | list");
            2
        }
    };
    std::process::exit(code);
}

fn cmd_check(args: &[String]) -> i32 {
    let id = match args.get(2) {
        Some(i) => i.clone(),
        None => {
            eprintln!("check: missing property id");
            return 2;
        }
    };
    let prop = match props::by_id(&id) {
        Some(p) => p,
        None => {
            eprintln!("check: unknown property {}", id);
            return 2;
        }
    };
    let prop = prop.as_ref();
    let tier = arg_val(args, "--tier").or_else(|| std::env::var("VERIF_TIER").ok()).unwrap_or_else(|| "quick".into());
    let thorough = tier == "thorough";
    let vdir = verif_dir(args);
    let seed = base_seed();
    let nruns = arg_val(args, "--runs").and_then(|s| s.parse().ok()).unwrap_or_else(|| prop.runs(thorough));
    let workers = arg_val(args, "--workers").and_then(|s| s.parse().ok()).unwrap_or_else(|| std::thread::available_parallelism().map(|n| n.get()).unwrap_or(8).min(16));
    let wall = arg_val(args, "--wall").and_then(|s| s.parse().ok()).unwrap_or_else(|| prop.wall_cap_s(thorough));
    let known_dir = arg_val(args, "--known-dir").unwrap_or_else(|| vdir.clone());
    let known = match load_known(&known_dir) {
        Ok(k) => k,
        Err(e) => {
            eprintln!("HARNESS-ERROR: {}", e);
            return 2;
        }
    };
    if let Some(j) = arg_val(args, "--journal") {
        let _ = std::fs::create_dir_all(&j);
        let _ = JOURNAL_DIR.set(j);
    }
    println!("starsim check property={} tier={} VERIF_SEED={} runs={} workers={} repo_head={}", prop.id(), tier, seed, nruns, workers, repo_head());
    let br = run_batch(prop, thorough, seed, nruns, workers, &known, wall);
    if !br.harness_errors.is_empty() {
        for e in &br.harness_errors {
            eprintln!("HARNESS-ERROR: {}", e);
        }
        return 2;
    }
    // samples: re-run the first non-trivial runs with tracing on
    let mut samples = Vec::new();
    for &i in br.nontrivial_idx.iter().take(2) {
        let (s, os) = run_seed(prop, seed, i);
        let out = execute(prop, Choices::generate(s), os, thorough, true);
        let mut tr = out.trace;
        let total = tr.len();
        tr.truncate(60);
        samples.push(json!({"run_index": i, "seed": s.to_string(), "events_total": total, "digest": format!("{:016x}", out.digest), "trace_head": tr}));
    }
    if samples.is_empty() {
        let (s, os) = run_seed(prop, seed, 0);
        let out = execute(prop, Choices::generate(s), os, thorough, true);
        let mut tr = out.trace;
        tr.truncate(60);
        samples.push(json!({"run_index": 0, "seed": s.to_string(), "note": "no run met the non-trivial rule; first run shown", "trace_head": tr}));
    }
    let mut exit = 0;
    let mut notes = Vec::new();
    for (_, (n, k)) in br.known_seen.iter() {
        println!("KNOWN-FINDING: property={} {} [{} | {}] (seen in {} runs)", prop.id(), k.what, k.invariant, k.signature, n);
    }
    // report each distinct invariant once (smallest run index first)
    let mut seen_inv = std::collections::BTreeSet::new();
    for (i, v) in br.violations.iter() {
        if !seen_inv.insert(v.invariant.clone()) || seen_inv.len() > 3 {
            continue;
        }
        let (s, os) = run_seed(prop, seed, *i);
        let first = execute(prop, Choices::generate(s), os, thorough, false);
        let orig_len = first.choices.len();
        let (min_choices, shrink_runs) = shrink(prop, first.choices.clone(), os, thorough, v, 3000, 60);
        let mut fin = execute(prop, Choices::replay(min_choices), os, thorough, true);
        while fin.choices.last() == Some(&0) {
            fin.choices.pop(); // an exhausted replay vector yields 0 anyway
        }
        let mut fin = if fin.violation.as_ref().map(|x| x.invariant == v.invariant && x.signature == v.signature).unwrap_or(false) {
            fin
        } else {
            // shrinking lost it (should not happen); fall back to the original vector
            execute(prop, Choices::replay(first.choices.clone()), os, thorough, true)
        };
        while fin.choices.last() == Some(&0) {
            fin.choices.pop();
        }
        if fin.violation.is_none() {
            // Observed in the batch, but the same seed re-executed here does not violate: the code under
            // test carries hidden state across executions. Exact replay = the sequential batch prefix.
            match history_dependent_report(prop, thorough, seed, *i, v, &vdir) {
                Some(seqpath) => {
                    println!("violation: {} [{}] {}", v.invariant, v.signature, v.detail);
                    println!("  note: depends on earlier executions in the same process (hidden state in the code under test); exact replay = runs 0..={} executed sequentially in a fresh process", i);
                    println!("VIOLATION property={} replay={}", prop.id(), seqpath);
                    notes.push(json!({"invariant": v.invariant, "signature": v.signature, "detail": v.detail, "replay": seqpath, "run_index": i, "history_dependent": true}));
                    exit = 1;
                    continue;
                }
                None => {
                    // Observed once, on real code, but neither its seed nor the sequential prefix brings it
                    // back: the code under test behaves history- AND schedule-dependently (e.g. a
                    // process-global counter shared by the worker threads). The harness itself is
                    // deterministic (./check --selftest). Reported, with the observed run's seed as replay.
                    let path = format!("{}/replays/{}-{}-{}-unreproducible.json", vdir, prop.id(), v.invariant.chars().map(|c| if c.is_ascii_alphanumeric() { c } else { '_' }).collect::<String>(), s);
                    let j = json!({
                        "format": "starsim-replay-1", "property": prop.id(), "world": prop.world(), "tier": if thorough { "thorough" } else { "quick" },
                        "seed": s.to_string(), "os_seed": os.to_string(), "run_index": i, "choices": first.choices,
                        "violation": {"invariant": v.invariant, "signature": v.signature, "detail": format!("OBSERVED ONCE in a 16-thread batch, not reproducible in isolation (global hidden state in the code under test): {}", v.detail), "step": v.step},
                        "digest": "", "trace": [], "repo_head": repo_head(),
                    });
                    let _ = std::fs::create_dir_all(format!("{}/replays", vdir));
                    let _ = std::fs::write(&path, serde_json::to_string_pretty(&j).unwrap());
                    println!("violation: {} [{}] {}", v.invariant, v.signature, v.detail);
                    println!("  note: observed in run {} of this batch on real code, but reproducible neither from its seed in a fresh process nor from the sequential batch prefix: the code under test is history- and schedule-dependent (process-global hidden state)", i);
                    println!("VIOLATION property={} replay={}", prop.id(), path);
                    notes.push(json!({"invariant": v.invariant, "signature": v.signature, "detail": v.detail, "replay": path, "run_index": i, "reproducible": false}));
                    exit = 1;
                    continue;
                }
            }
        }
        let path = format!("{}/replays/{}-{}-{}.json", vdir, prop.id(), v.invariant.chars().map(|c| if c.is_ascii_alphanumeric() { c } else { '_' }).collect::<String>(), s);
        if let Err(e) = write_replay(&path, prop, thorough, s, os, *i, orig_len, shrink_runs, &fin) {
            eprintln!("HARNESS-ERROR: cannot write {}: {}", path, e);
            return 2;
        }
        // replay in a fresh process before reporting
        let exe = std::env::current_exe().unwrap();
        let st = std::process::Command::new(exe).args(["replay", &path, "--quiet", "--verif-dir", &vdir]).stdout(std::process::Stdio::null()).status();
        match st {
            Ok(st) if st.code() == Some(1) => {}
            _ => match history_dependent_report(prop, thorough, seed, *i, v, &vdir) {
                Some(seqpath) => {
                    let fvv = fin.violation.as_ref().unwrap();
                    println!("violation: {} [{}] {}", fvv.invariant, fvv.signature, fvv.detail);
                    println!("  note: depends on earlier executions in the same process; exact replay = the sequential batch prefix");
                    println!("VIOLATION property={} replay={}", prop.id(), seqpath);
                    notes.push(json!({"invariant": fvv.invariant, "signature": fvv.signature, "detail": fvv.detail, "replay": seqpath, "run_index": i, "history_dependent": true}));
                    exit = 1;
                    continue;
                }
                None => {
                    eprintln!("HARNESS-ERROR: fresh-process replay of {} did not reproduce, and neither does the sequential batch prefix", path);
                    return 2;
                }
            },
        }
        let fv = fin.violation.as_ref().unwrap();
        println!("violation: {} [{}] {}", fv.invariant, fv.signature, fv.detail);
        println!("  minimised {} -> {} choices in {} re-executions; {} events in trace", orig_len, fin.choices.len(), shrink_runs, fin.trace.len());
        println!("VIOLATION property={} replay={}", prop.id(), path);
        notes.push(json!({"invariant": fv.invariant, "signature": fv.signature, "detail": fv.detail, "replay": path, "run_index": i}));
        exit = 1;
    }
    if let Err(e) = write_evidence(&vdir, prop, thorough, seed, workers, &br, samples, notes.len(), notes) {
        eprintln!("HARNESS-ERROR: evidence: {}", e);
        return 2;
    }
    println!(
        "{}: {} runs in {:.1}s, {} distinct non-trivial, {} states, faults {:?}, violations {}",
        prop.id(),
        br.evaluations,
        br.wall_s,
        br.distinct_nontrivial,
        br.states,
        br.stats.faults,
        if exit == 0 { 0 } else { br.violations.len() }
    );
    if br.reexec_mismatch > 0 {
        println!("NOTE: {} of {} runs re-executed with the same seed in the same process produced a different event digest: hidden state (cache, pool, thread-local) in the code under test makes executions history-dependent; replay files are exact only in a fresh process", br.reexec_mismatch, br.reexec_sampled);
    }
    if exit == 0 && br.distinct_nontrivial < 2 {
        eprintln!("HARNESS-ERROR: fewer than 2 distinct non-trivial runs; the workload does not reach the property");
        return 2;
    }
    exit
}

fn cmd_replay(args: &[String]) -> i32 {
    let path = match args.get(2) {
        Some(p) => p.clone(),
        None => return 2,
    };
    let quiet = args.iter().any(|a| a == "--quiet");
    let rf = match read_replay(&path) {
        Ok(r) => r,
        Err(e) => {
            eprintln!("HARNESS-ERROR: {}", e);
            return 2;
        }
    };
    let prop = match props::by_id(&rf.property) {
        Some(p) => p,
        None => {
            eprintln!("HARNESS-ERROR: unknown property {}", rf.property);
            return 2;
        }
    };
    if let Some(upto) = rf.sequence_upto {
        // run the batch prefix 0..=upto sequentially in this (fresh) process
        let base: u64 = rf.base_seed;
        for i in 0..=upto {
            let (s, os) = run_seed(prop.as_ref(), base, i);
            let out = execute(prop.as_ref(), Choices::generate(s), os, rf.thorough, false);
            if let Some(v) = out.violation {
                if !quiet {
                    println!("violation at run {} of the sequential prefix: {} [{}] {}", i, v.invariant, v.signature, v.detail);
                }
                println!("VIOLATION property={} replay={}", rf.property, path);
                return 1;
            }
        }
        if !quiet {
            println!("sequential prefix 0..={} of {}: no violation on this tree", upto, rf.property);
        }
        return 0;
    }
    let ch = match rf.gen_seed {
        Some(seed) => Choices::generate(seed),
        None => Choices::replay(rf.choices.clone()),
    };
    let out = execute(prop.as_ref(), ch, rf.os_seed, rf.thorough, true);
    if let Some(e) = out.harness_error {
        eprintln!("HARNESS-ERROR: {}", e);
        return 2;
    }
    match out.violation {
        Some(v) => {
            let same = v.invariant == rf.invariant && v.signature == rf.signature;
            let same_digest = format!("{:016x}", out.digest) == rf.digest;
            if !quiet {
                for l in &out.trace {
                    println!("  | {}", l);
                }
                println!("violation: {} [{}] {}", v.invariant, v.signature, v.detail);
                println!("reproduced: same invariant/signature={} same event digest={}", same, same_digest);
            }
            if same {
                println!("VIOLATION property={} replay={}", rf.property, path);
                1
            } else {
                println!("replay produced a different violation: {} [{}]", v.invariant, v.signature);
                println!("VIOLATION property={} replay={}", rf.property, path);
                1
            }
        }
        None => {
            if !quiet {
                println!("replay of {}: no violation on this tree (digest {:016x}, recorded {})", path, out.digest, rf.digest);
            }
            0
        }
    }
}

fn cmd_digests(args: &[String]) -> i32 {
    let which = args.get(2).cloned().unwrap_or_else(|| "all".into());
    let n: u64 = arg_val(args, "--n").and_then(|s| s.parse().ok()).unwrap_or(200);
    let workers: usize = arg_val(args, "--workers").and_then(|s| s.parse().ok()).unwrap_or(4);
    let thorough = arg_val(args, "--tier").map(|t| t == "thorough").unwrap_or(false);
    let seed = base_seed();
    let plist: Vec<Box<dyn Property>> = if which == "all" { props::all() } else { props::by_id(&which).into_iter().collect() };
    for p in plist {
        let p = p.as_ref();
        let results = std::sync::Mutex::new(vec![(0u64, 0u64, false); n as usize]);
        let next = std::sync::atomic::AtomicU64::new(0);
        std::thread::scope(|sc| {
            for _ in 0..workers {
                sc.spawn(|| loop {
                    let i = next.fetch_add(1, std::sync::atomic::Ordering::Relaxed);
                    if i >= n {
                        break;
                    }
                    let (s, os) = run_seed(p, seed, i);
                    let out = execute(p, Choices::generate(s), os, thorough, false);
                    results.lock().unwrap()[i as usize] = (out.digest, out.choices.len() as u64, out.violation.is_some() || out.harness_error.is_some());
                });
            }
        });
        for (i, (d, l, v)) in results.into_inner().unwrap().into_iter().enumerate() {
            println!("{} {} {:016x} {} {}", p.id(), i, d, l, v as u8);
        }
    }
    0
}

/// `one <ID> <index> [--tier T]`: execute exactly one run of a batch in this process (used to
/// attribute an abort of the batch process to a run).
fn cmd_one(args: &[String]) -> i32 {
    let (prop, i) = match (args.get(2).and_then(|p| props::by_id(p)), args.get(3).and_then(|s| s.parse::<u64>().ok())) {
        (Some(p), Some(i)) => (p, i),
        _ => return 2,
    };
    let thorough = arg_val(args, "--tier").map(|t| t == "thorough").unwrap_or(false);
    let (s, os) = run_seed(prop.as_ref(), base_seed(), i);
    let out = execute(prop.as_ref(), Choices::generate(s), os, thorough, false);
    if out.harness_error.is_some() {
        return 2;
    }
    if out.violation.is_some() { 1 } else { 0 }
}

/// `seedfile <ID> <index> --out <path>`: write a seed-mode replay file WITHOUT executing the run.
fn cmd_seedfile(args: &[String]) -> i32 {
    let (prop, i) = match (args.get(2).and_then(|p| props::by_id(p)), args.get(3).and_then(|s| s.parse::<u64>().ok())) {
        (Some(p), Some(i)) => (p, i),
        _ => return 2,
    };
    let tier = arg_val(args, "--tier").unwrap_or_else(|| "quick".into());
    let out = match arg_val(args, "--out") {
        Some(o) => o,
        None => return 2,
    };
    let (s, os) = run_seed(prop.as_ref(), base_seed(), i);
    let j = json!({
        "format": "starsim-replay-1", "property": prop.id(), "world": prop.world(), "tier": tier,
        "seed": s.to_string(), "os_seed": os.to_string(), "run_index": i, "choices": serde_json::Value::Null,
        "violation": {"invariant": format!("{}.abort", prop.id().to_lowercase()), "signature": "process_abort", "detail": "the process executing this run terminated abnormally (abort / stack overflow / allocation failure): replay re-generates the run from its seed", "step": 0},
        "digest": "", "trace": [], "repo_head": repo_head(),
    });
    if let Some(dir) = std::path::Path::new(&out).parent() {
        let _ = std::fs::create_dir_all(dir);
    }
    match std::fs::write(&out, serde_json::to_string_pretty(&j).unwrap()) {
        Ok(()) => 0,
        Err(_) => 2,
    }
}

fn fv_inv(o: &RunOutcome) -> String {
    o.violation.as_ref().map(|v| v.invariant.clone()).unwrap_or_default()
}
fn fv_sig(o: &RunOutcome) -> String {
    o.violation.as_ref().map(|v| v.signature.clone()).unwrap_or_default()
}

/// Write a sequence-mode replay file (runs 0..=i of the batch, one after another, in one fresh
/// process) and test it in a fresh process. Some(path) iff it reproduces a violation.
fn history_dependent_report(prop: &dyn Property, thorough: bool, base_seed: u64, i: u64, v: &kernel::Violation, vdir: &str) -> Option<String> {
    if i > 50_000 {
        return None;
    }
    let tier_s = if thorough { "thorough" } else { "quick" };
    let seqpath = format!("{}/replays/{}-{}-sequence-upto-{}.json", vdir, prop.id(), v.invariant.chars().map(|c| if c.is_ascii_alphanumeric() { c } else { '_' }).collect::<String>(), i);
    let j = json!({
        "format": "starsim-replay-1", "property": prop.id(), "world": prop.world(), "tier": tier_s,
        "seed": base_seed.to_string(), "os_seed": "0", "sequence_upto": i, "choices": serde_json::Value::Null,
        "violation": {"invariant": v.invariant, "signature": v.signature, "detail": format!("history-dependent: manifests when runs 0..={} of the batch execute one after another in one process (hidden state across executions in the code under test). Observed: {}", i, v.detail), "step": 0},
        "digest": "", "trace": [], "repo_head": repo_head(),
    });
    if let Some(dir) = std::path::Path::new(&seqpath).parent() {
        let _ = std::fs::create_dir_all(dir);
    }
    std::fs::write(&seqpath, serde_json::to_string_pretty(&j).unwrap()).ok()?;
    let exe = std::env::current_exe().ok()?;
    let code = std::process::Command::new(exe).args(["replay", &seqpath, "--quiet", "--verif-dir", vdir]).stdout(std::process::Stdio::null()).status().ok()?.code();
    if code == Some(1) { Some(seqpath) } else { None }
}
