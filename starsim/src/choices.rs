//! The single source of every scheduling / fault / workload decision in a run.
//!
//! generate mode: xoshiro256** seeded from the run seed; every draw is reduced
//! to its bound and appended to the record. replay mode: the record is read
//! back (value mod bound; exhausted => 0, the "simplest" alternative: no
//! fault, smallest size, first operation, stop).

pub fn splitmix64(x: &mut u64) -> u64 {
    *x = x.wrapping_add(0x9E37_79B9_7F4A_7C15);
    let mut z = *x;
    z = (z ^ (z >> 30)).wrapping_mul(0xBF58_476D_1CE4_E5B9);
    z = (z ^ (z >> 27)).wrapping_mul(0x94D0_49BB_1331_11EB);
    z ^ (z >> 31)
}

pub fn mix(a: u64, b: u64) -> u64 {
    let mut s = a ^ b.rotate_left(32) ^ 0xD6E8_FEB8_6659_FD93;
    let x = splitmix64(&mut s);
    let mut t = x ^ b;
    splitmix64(&mut t)
}

#[derive(Clone)]
pub struct Xoshiro {
    s: [u64; 4],
}
impl Xoshiro {
    pub fn new(seed: u64) -> Self {
        let mut sm = seed;
        let s = [
            splitmix64(&mut sm),
            splitmix64(&mut sm),
            splitmix64(&mut sm),
            splitmix64(&mut sm),
        ];
        Xoshiro { s }
    }
    pub fn next(&mut self) -> u64 {
        let r = self.s[1].wrapping_mul(5).rotate_left(7).wrapping_mul(9);
        let t = self.s[1] << 17;
        self.s[2] ^= self.s[0];
        self.s[3] ^= self.s[1];
        self.s[1] ^= self.s[2];
        self.s[0] ^= self.s[3];
        self.s[2] ^= t;
        self.s[3] = self.s[3].rotate_left(45);
        r
    }
    pub fn fill(&mut self, out: &mut [u8]) {
        for c in out.chunks_mut(8) {
            let v = self.next().to_le_bytes();
            c.copy_from_slice(&v[..c.len()]);
        }
    }
}

enum Mode {
    Gen(Xoshiro),
    Replay(Vec<u64>, usize),
}

pub struct Choices {
    mode: Mode,
    rec: Vec<u64>,
    /// number of draws that fell off the end of a replay vector
    pub exhausted: u64,
}

impl Choices {
    pub fn generate(seed: u64) -> Self {
        Choices { mode: Mode::Gen(Xoshiro::new(seed)), rec: Vec::new(), exhausted: 0 }
    }
    pub fn replay(v: Vec<u64>) -> Self {
        Choices { mode: Mode::Replay(v, 0), rec: Vec::new(), exhausted: 0 }
    }
    /// Uniform-ish draw in `[0, bound)`; `bound == 0` is treated as 1.
    pub fn draw(&mut self, bound: u64) -> u64 {
        let bound = bound.max(1);
        let v = match &mut self.mode {
            Mode::Gen(x) => x.next() % bound,
            Mode::Replay(v, pos) => {
                let r = if *pos < v.len() {
                    v[*pos] % bound
                } else {
                    self.exhausted += 1;
                    0
                };
                *pos += 1;
                r
            }
        };
        self.rec.push(v);
        v
    }
    /// true with probability num/den; a recorded 0 always means `false`.
    pub fn chance(&mut self, num: u64, den: u64) -> bool {
        if num == 0 {
            // still draw so that vectors stay aligned when a rate is 0? No:
            // a rate of 0 means the fault kind is disabled for this run and
            // consumes nothing.
            return false;
        }
        let d = self.draw(den);
        d >= den.saturating_sub(num)
    }
    pub fn range(&mut self, lo: u64, hi: u64) -> u64 {
        debug_assert!(hi >= lo);
        lo + self.draw(hi - lo + 1)
    }
    pub fn index(&mut self, len: usize) -> usize {
        self.draw(len as u64) as usize
    }
    pub fn pick<'a, T>(&mut self, xs: &'a [T]) -> &'a T {
        let i = self.index(xs.len());
        &xs[i]
    }
    /// `len` content bytes derived from ONE drawn 32-bit content seed, so that
    /// payload bytes do not bloat the choice vector (seed 0 = simplest bytes).
    pub fn bytes(&mut self, len: usize) -> Vec<u8> {
        let seed = self.draw(1 << 32);
        content_bytes(seed, len)
    }
    /// Fisher-Yates permutation of 0..n
    pub fn permutation(&mut self, n: usize) -> Vec<usize> {
        let mut p: Vec<usize> = (0..n).collect();
        for i in (1..n).rev() {
            let j = self.index(i + 1);
            // recorded 0 => swap with 0; an all-zero vector is a fixed rotation, fine
            p.swap(i, j);
        }
        p
    }
    pub fn recorded(&self) -> &[u64] {
        &self.rec
    }
    pub fn into_recorded(self) -> Vec<u64> {
        self.rec
    }
}

pub fn content_bytes(seed: u64, len: usize) -> Vec<u8> {
    let mut out = vec![0u8; len];
    if seed == 0 {
        // simplest content: ascending letters (never all-zero, which could
        // collide with structural zero bytes in wire scans)
        for (i, b) in out.iter_mut().enumerate() {
            *b = b'a' + (i % 26) as u8;
        }
        return out;
    }
    let mut x = Xoshiro::new(seed ^ 0xC0FF_EE00_0000_0000);
    x.fill(&mut out);
    out
}

/// FNV-1a style 64-bit rolling digest (not cryptographic; replay equality only).
#[derive(Clone, Copy)]
pub struct Digest(pub u64);
impl Default for Digest {
    fn default() -> Self {
        Digest(0xcbf2_9ce4_8422_2325)
    }
}
impl Digest {
    pub fn bytes(&mut self, b: &[u8]) {
        let mut h = self.0;
        for &x in b {
            h ^= x as u64;
            h = h.wrapping_mul(0x0000_0100_0000_01B3);
        }
        // length separator
        h ^= b.len() as u64;
        h = h.wrapping_mul(0x0000_0100_0000_01B3);
        self.0 = h;
    }
    pub fn u64(&mut self, v: u64) {
        self.bytes(&v.to_le_bytes());
    }
    pub fn str(&mut self, s: &str) {
        self.bytes(s.as_bytes());
    }
}

pub fn str_hash(s: &str) -> u64 {
    let mut d = Digest::default();
    d.str(s);
    d.0
}

pub fn hex(b: &[u8]) -> String {
    let mut s = String::with_capacity(b.len() * 2);
    for x in b {
        s.push_str(&format!("{:02x}", x));
    }
    s
}
pub fn hex_short(b: &[u8]) -> String {
    if b.len() <= 12 {
        hex(b)
    } else {
        format!("{}..{}({}B)", hex(&b[..6]), hex(&b[b.len() - 4..]), b.len())
    }
}
