#!/bin/bash
# Run every quick check under N different VERIF_SEED values on the current tree; any exit != 0 is
# printed. Evidence/replays go to a scratch dir. usage: tools/soak_seeds.sh [N] [first_seed]
cd "$(dirname "$0")/.." || exit 2
N=${1:-20}; S0=${2:-1000}
SCR=$(mktemp -d)
bad=0
for ((k=0;k<N;k++)); do
  seed=$((S0 + k*7919))
  for p in C01 C02 C03 C04 C05 C06 C08 C09 C10 C11 C12 C13 C14 C15 C16 C17 C18; do
    out=$(VERIF_SEED=$seed VERIF_SCRATCH=$SCR ./check $p ${TIER:-quick} 2>&1); rc=$?
    if [ $rc -ne 0 ]; then echo "seed $seed $p rc=$rc: $(echo "$out" | grep -E 'violation|VIOLATION|HARNESS' | head -3)"; bad=$((bad+1)); fi
  done
  echo "seed $seed done (bad so far: $bad)"
done
rm -rf "$SCR"
echo "soak finished: $N seeds x 17 checks, $bad non-zero exits"
