#!/bin/bash
# Apply every seeded breaking change under /verif/seeded/<id>/patch.diff to /repo (one at a time,
# undone straight afterwards), run the quick checks named in its meta.json (or all checks with
# ALL=1) with output redirected to a scratch dir, and print which checks caught it.
# usage: tools/run_seeded.sh [id ...]
set -u
cd "$(dirname "$0")/.." || exit 2
SCR=${SCR:-/tmp/starsim-seeded}
mkdir -p "$SCR"
if ! git -C /repo diff --quiet; then echo "refusing: /repo has uncommitted changes"; exit 2; fi
ids=("$@")
if [ ${#ids[@]} -eq 0 ]; then ids=($(ls seeded)); fi
for id in "${ids[@]}"; do
  d=seeded/$id
  [ -f "$d/patch.diff" ] || continue
  props=$(python3 -c "import json,sys; m=json.load(open('$d/meta.json')); print(' '.join(m.get('run_checks') or [m['property']]))")
  if [ "${ALL:-0}" = 1 ]; then props="C01 C02 C03 C04 C05 C06 C08 C09 C10 C11 C12 C13 C14 C15 C16 C17 C18"; fi
  if ! git -C /repo apply "$PWD/$d/patch.diff" 2>/dev/null; then echo "$id: PATCH DOES NOT APPLY"; continue; fi
  caught=""
  for p in $props; do
    out=$(VERIF_SCRATCH="$SCR" timeout 1500 ./check "$p" "${TIER:-quick}" 2>&1); rc=$?
    if [ $rc -eq 124 ]; then for q in $(pgrep -x starsim); do if tr '\0' ' ' < /proc/$q/cmdline 2>/dev/null | grep -q -- "$SCR"; then kill "$q" 2>/dev/null; fi; done; caught="$caught $p[TIMEOUT]"; continue; fi
    if [ $rc -eq 1 ]; then caught="$caught $p[$(echo "$out" | grep -m1 '^violation:' | cut -d' ' -f2)]"; fi
    if [ $rc -ge 2 ]; then caught="$caught $p[HARNESS-ERROR rc=$rc]"; fi
  done
  git -C /repo checkout -- . ; git -C /repo clean -fdq -- . >/dev/null 2>&1
  if [ -n "$caught" ]; then echo "$id: CAUGHT by$caught"; else echo "$id: MISSED (ran: $props)"; fi
done
rm -rf "$SCR"
