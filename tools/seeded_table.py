#!/usr/bin/env python3
"""Fill the table in DESIGN.md §10 from /verif/seeded/*/meta.json and the output of
tools/run_seeded.sh (given as a file: lines '<id>: CAUGHT by ...' / '<id>: MISSED ...')."""
import json, os, sys, re
res={}
for l in open(sys.argv[1]):
    m=re.match(r'^(\S+): (CAUGHT by|MISSED)(.*)$', l.strip())
    if m: res[m.group(1)]=(m.group(2), m.group(3).strip())
rows=[]
for d in sorted(os.listdir('/verif/seeded')):
    mp=f'/verif/seeded/{d}/meta.json'
    if not os.path.exists(mp): continue
    m=json.load(open(mp))
    r=res.get(d,('not run',''))
    origin='sub-agent' if d.startswith('agent-') else 'own'
    caught = r[1] if r[0]=='CAUGHT by' else ('**missed**' if r[0]=='MISSED' else 'not run')
    note=m.get('history','')
    rows.append(f"| `{d}` | {m['property']} | {origin} | {m['needs_to_manifest']} | {caught} {note} |")
table="| seeded change | breaks | origin | needs, to manifest | caught by (quick tier) |\n|---|---|---|---|---|\n"+"\n".join(rows)
p='/verif/DESIGN.md'
s=open(p).read()
if 'SEEDED_TABLE_PLACEHOLDER' in s:
    s=s.replace('SEEDED_TABLE_PLACEHOLDER','<!-- seeded-table-begin -->\n'+table+'\n<!-- seeded-table-end -->')
else:
    s=re.sub(r'<!-- seeded-table-begin -->.*<!-- seeded-table-end -->','<!-- seeded-table-begin -->\n'+table.replace('\\','\\\\')+'\n<!-- seeded-table-end -->',s,flags=re.S)
open(p,'w').write(s)
print(len(rows),'rows')
